SPECIFICATION Spec
CONSTANTS
  Fam = "hot"
  Sample = 1500
INVARIANT PrintCase
CHECK_DEADLOCK FALSE
