------------------------------ MODULE WarmEnv ------------------------------
(* C08, Tier A: the envelope a warm-up rule (threshold q, cold factor cf, period p seconds) must   *)
(* keep, stated over admissions per calendar second.  tau is the tolerance of "about".              *)
(* A second is saturated when at least q tokens were offered in each of its half-second buckets.    *)
EXTENDS Integers

EffCold(c) == IF c <= 1 THEN 3 ELSE c
LoOf(q, cf) == q \div cf

SecondOKp(q, cf, p, tau, adm, off1, off2, r, cold, prevAdm) ==
    LET sat == off1 >= q /\ off2 >= q
        lo == LoOf(q, cf)
    IN  /\ adm <= q                                        \* never more than q per interval
        /\ sat => adm >= lo - tau                          \* never less than about q/c when saturated
        /\ cold => adm <= lo + tau                         \* cold start / cold again after idling 2p
        /\ (sat /\ r >= 1) => adm >= prevAdm - tau         \* the allowance does not decrease
        /\ (sat /\ r >= 2 * p + 2) => adm >= q - tau       \* warmed up within 2p + 2 seconds

\* the same with a plain reject rule of threshold `cap` next to the warm-up rule on the resource (0 = none):
\* admissions are bounded by both, so the upper clauses keep their form and the lower ones speak about
\* min(q, cap)
SecondOKc(q, cap, cf, p, tau, adm, off1, off2, r, cold, prevAdm) ==
    LET sat == off1 >= q /\ off2 >= q
        lo == LoOf(q, cf)
        qe == IF cap > 0 /\ cap < q THEN cap ELSE q
        loe == IF lo < qe THEN lo ELSE qe
    IN  /\ adm <= qe
        /\ sat => adm >= loe - tau
        /\ cold => adm <= lo + tau
        /\ (sat /\ r >= 1) => adm >= (IF prevAdm < qe THEN prevAdm ELSE qe) - tau
        /\ (sat /\ r >= 2 * p + 2) => adm >= qe - tau
=============================================================================
