SPECIFICATION Spec
CONSTANTS
  Fam = "cb"
  Sample = 400
INVARIANT PrintCase
CHECK_DEADLOCK FALSE
