SPECIFICATION MCSpec
CONSTANTS
  GenMode = FALSE
  GenDepth = 0
  MaxT = 21000
  MaxEnters = 4
  MaxOpen = 3
  MaxN = 2
  IsoSets <- IsoNone
  HotSets <- HotSetsSmall
  Inbounds <- OnlyOut
  Ress <- R1
  ArgC <- Args3
  AttC <- AttSets
  SysSets <- SysNone
  LoadVals <- NoVals
  DTMode = "min"
CONSTRAINT StateBound
INVARIANT InflightExact
INVARIANT IsoCap
INVARIANT HotCap
CHECK_DEADLOCK FALSE
