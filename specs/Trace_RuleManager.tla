-------------------------- MODULE Trace_RuleManager --------------------------
EXTENDS RuleManager, Json, IOUtils

Rec == ndJsonDeserialize(IOEnv.TRACE)
VARIABLE l
trvars == <<rvars, l>>
Has(ev, f) == f \in DOMAIN ev

\* the active set the manager reports after the operation, as rules
ObsActive(ev) ==
    LET cand == ever[ev.fam] \cup OpSpec(ev).given \cup active[ev.fam] IN
    {r \in cand : r.id \in SeqToSet(ev.after.all)}

\* the listing is consistent: no unknown ids, and the per-resource listings agree with the global one
ListingOK(ev, A) ==
    /\ \A id \in SeqToSet(ev.after.all) : \E r \in A : r.id = id
    \* (a rule kept twice may be listed twice: multiplicities are not compared)
    /\ ev.fam # "sys" =>
         \A k \in DOMAIN ev.after.res :
            SeqToSet(ev.after.res[k]) = {r.id : r \in {x \in A : x.res = k}}

TraceInit == RMInit /\ l = 1
TraceNext ==
    /\ l <= Len(Rec)
    /\ l' = l + 1
    /\ LET ev == Rec[l] IN
       CASE ev.e = "reset" -> ev.ok /\ Reset(ev)
         [] ev.e = "load"  ->
              /\ Has(ev, "ret") /\ Has(ev, "after")                  \* no panic
              /\ ev.ret \in OpSpec(ev).rets
              /\ LET A == ObsActive(ev) IN ListingOK(ev, A) /\ Op(ev, A)
         [] ev.e = "probe" ->
              /\ ev.r = IF ProbeBlocked(ev) THEN "block" ELSE "pass"
              /\ ev.r = "block" => ev.bt = (IF ev.fam = "iso" THEN "isolation" ELSE "flow")
              /\ Probe(ev)
         [] OTHER -> FALSE
TraceSpec == TraceInit /\ [][TraceNext]_trvars

TraceAccepted ==
    LET d == TLCGet("stats").diameter IN
    IF d - 1 = Len(Rec) THEN TRUE
    ELSE /\ PrintT(<<"TRACE_REJECTED", d, Len(Rec), ToJson(Rec[d])>>)
         /\ FALSE
=============================================================================
