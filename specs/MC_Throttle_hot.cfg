SPECIFICATION MCSpec
CONSTANTS
  GenMode = FALSE
  GenDepth = 0
  MaxT = 2200
  DTSel = "min"
  MaxN = 2
  FlowSets <- FlowNone
  HotSets <- HotSmall
CONSTRAINT StateBound
INVARIANT BoundedQueue
CHECK_DEADLOCK FALSE
