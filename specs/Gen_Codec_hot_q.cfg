SPECIFICATION Spec
CONSTANTS
  Fam = "hot"
  Sample = 60
INVARIANT PrintCase
CHECK_DEADLOCK FALSE
