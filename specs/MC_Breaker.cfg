SPECIFICATION MCSpec
CONSTANTS
  GenMode = FALSE
  GenDepth = 0
  MaxT = 12
  MaxC = 3
  MaxOpen = 2
  RuleSets <- SetsSmall
  WithIso = TRUE
CONSTRAINT StateBound
INVARIANT OneProbe
INVARIANT LogIsPath
INVARIANT ClearOnClose
INVARIANT OpenHasRetry
CHECK_DEADLOCK FALSE
