SPECIFICATION Spec
INVARIANT NoDeadlock
CHECK_DEADLOCK FALSE
