SPECIFICATION MCSpec
CONSTANTS
  GenMode = TRUE
  GenDepth = 20
  MaxT = 100000
  DTSel = "full"
  MaxN = 2
  FlowSets <- FlowAll
  HotSets <- HotAll
CONSTRAINT GenBound
CHECK_DEADLOCK FALSE
INVARIANT PrintBehaviour
