SPECIFICATION Spec
CONSTANTS
  Fam = "flow"
  Sample = 400
INVARIANT PrintCase
CHECK_DEADLOCK FALSE
