------------------------------ MODULE Breaker ------------------------------
(***************************************************************************)
(* C03 — circuit breakers follow the Closed / Open / Half-Open machine;    *)
(* C11 (breaker part) — a reload keeps the state of unchanged rules.       *)
(*                                                                         *)
(* Per breaker (= valid rule): state, retry instant, ghost of completions  *)
(* per time bucket (total, bad), and which in-flight entry is its probe.   *)
(* Breakers of a resource are consulted in `order` (unspecified by the     *)
(* API: the trace tells it, the model picks any permutation).              *)
(*                                                                         *)
(* A *stale* completion (an entry that is not the probe, completing while  *)
(* the breaker is Half-Open) may decide the probe phase - as today's code  *)
(* does - or leave it to the probe: both are allowed (Tier A).             *)
(* An entry may also be blocked by a rule of another family (`foreign`):   *)
(* the breakers it probed then return to Open.                             *)
(***************************************************************************)
EXTENDS Integers, Sequences, FiniteSets, FiniteSetsExt, TLC

VARIABLES
    on, now,
    brs,      \* set of breaker rules [id, res, strat, retry, minreq, I, nb, maxrt, thr]
    order,    \* resource -> sequence of rule ids
    st,       \* rule id -> "closed" | "open" | "halfopen"
    retryAt,  \* rule id -> instant (or -1: never opened)
    cnt,      \* rule id -> (bucket start -> [total, bad])
    inflight, \* entry id -> [res, start, probes (sequence of rule ids)]
    log,      \* listener records produced by the last step: sequence of [to, prev, rule]
    foreign

bvars == <<on, now, brs, order, st, retryAt, cnt, inflight, log, foreign>>

SeqToSet(s) == {s[i] : i \in 1..Len(s)}
Perms(S) == {p \in [1..Cardinality(S) -> S] : \A a \in S : \E i \in 1..Cardinality(S) : p[i] = a}
Rule(id) == CHOOSE r \in brs : r.id = id
Rule2(S, id) == CHOOSE r \in S : r.id = id

Valid(r) ==
    /\ r.res # "" /\ r.I > 0 /\ r.retry > 0 /\ r.thr[1] >= 0
    /\ r.strat = "ecount" \/ r.thr[1] <= r.thr[2]

NB(r) == IF r.nb = 0 \/ r.I % r.nb # 0 THEN 1 ELSE r.nb
Lb(r) == r.I \div NB(r)
Start(len, t) == t - (t % len)

\* counters of breaker r inside its window at time t
InWin(r, t) == {b \in DOMAIN cnt[r.id] : b >= Start(Lb(r), t) - r.I + Lb(r)}
Total(c, S) == FoldSet(LAMBDA b, acc : acc + c[b].total, 0, S)
Bad(c, S)   == FoldSet(LAMBDA b, acc : acc + c[b].bad, 0, S)

Tripped(r, total, bad) ==
    /\ total >= r.minreq
    /\ IF r.strat = "ecount"
       THEN bad >= r.thr[1] \div r.thr[2]                 \* the threshold is truncated to an integer
       ELSE bad * r.thr[2] >= r.thr[1] * total            \* bad / total >= thr

IsBad(r, rt, err) == IF r.strat = "slow" THEN rt > r.maxrt ELSE err

OrderOf(res) == IF res \in DOMAIN order THEN order[res] ELSE <<>>

(* ------------------------------------------------------------------------ *)
(* Admission: walk the breakers in order.  Result: [blocked, st, probes, log] *)
RECURSIVE Walk(_, _, _, _, _, _)
Walk(ord, i, s, probes, lg, t) ==
    IF i > Len(ord) THEN [blocked |-> FALSE, st |-> s, probes |-> probes, log |-> lg]
    ELSE LET id == ord[i] IN
         IF s[id] = "closed" THEN Walk(ord, i + 1, s, probes, lg, t)
         ELSE IF s[id] = "open" /\ t >= retryAt[id]
              THEN Walk(ord, i + 1, [s EXCEPT ![id] = "halfopen"], Append(probes, id),
                        Append(lg, [to |-> "halfopen", prev |-> "open", rule |-> id]), t)
              ELSE [blocked |-> TRUE, st |-> s, probes |-> probes, log |-> lg]

\* a blocked entry returns every breaker it probed (still Half-Open) to Open, retry instant untouched
RECURSIVE Rollback(_, _, _, _)
Rollback(probes, i, s, lg) ==
    IF i > Len(probes) THEN [st |-> s, log |-> lg]
    ELSE LET id == probes[i] IN
         IF s[id] = "halfopen"
         THEN Rollback(probes, i + 1, [s EXCEPT ![id] = "open"],
                       Append(lg, [to |-> "open", prev |-> "halfopen", rule |-> id]))
         ELSE Rollback(probes, i + 1, s, lg)

Reset(ev) ==
    /\ ev.e = "reset"
    /\ on' = TRUE /\ now' = ev.t /\ brs' = {} /\ order' = <<>> /\ st' = <<>> /\ retryAt' = <<>>
    /\ cnt' = <<>> /\ inflight' = <<>> /\ log' = <<>> /\ foreign' = FALSE

SameRule(a, b) ==
    /\ a.res = b.res /\ a.strat = b.strat /\ a.retry = b.retry /\ a.minreq = b.minreq /\ a.I = b.I /\ a.nb = b.nb
    /\ a.thr[1] * b.thr[2] = b.thr[1] * a.thr[2]
    /\ a.strat = "slow" => a.maxrt = b.maxrt
StatReusable(a, b) == a.res = b.res /\ a.strat = b.strat /\ a.I = b.I /\ a.nb = b.nb

\* ord: the consultation order of the resources concerned after the load (any permutation)
LoadCb(ev, ord) ==
    /\ ev.e = "load" /\ ev.fam = "cb" /\ ev.op \in {"all", "res"} /\ on /\ ev.t >= now /\ now' = ev.t
    /\ LET scope(r) == ev.op = "all" \/ r.res = ev.res
           new == {r \in SeqToSet(ev.rules) : Valid(r) /\ scope(r)}
           keep == {r \in brs : ~scope(r)}
           all == new \cup keep
           \* the breaker of an unchanged rule is kept when the rules of its resource are, as a set under
           \* rule equality, the ones before the load (the case the property speaks about); if another rule
           \* of the resource changed in the same call, the code may hand an old breaker's statistics to
           \* the changed rule and rebuild the unchanged one, so the rule then counts as new
           sameRes(r) == /\ \A a \in {o \in brs : o.res = r.res} : \E b \in {x \in all : x.res = r.res} : SameRule(a, b)
                         /\ \A b \in {x \in all : x.res = r.res} : \E a \in {o \in brs : o.res = r.res} : SameRule(a, b)
           oldAny(r) == {o \in brs : SameRule(o, r)}
           ids == {r.id : r \in new}
       IN
       /\ brs' = all
       /\ DOMAIN ord = {r.res : r \in new}
       /\ \A rs \in DOMAIN ord : ord[rs] \in Perms({r.id : r \in {x \in new : x.res = rs}})
       /\ order' = [rs \in {r.res : r \in all} |-> IF rs \in DOMAIN ord THEN ord[rs] ELSE order[rs]]
       \* kept[id]: the rule continues with the breaker of an equal old rule (state, retry instant, counters);
       \* otherwise it starts Closed, with the counters of an old breaker of the same window or with none
       /\ \E kept \in [ids -> BOOLEAN] :
          \E src \in [ids -> {o.id : o \in brs} \cup {"<fresh>"}] :
            /\ \A r \in new :
                  /\ (oldAny(r) # {} /\ sameRes(r)) => kept[r.id]
                  /\ kept[r.id] => oldAny(r) # {}
                  /\ IF kept[r.id] THEN src[r.id] \in {o.id : o \in oldAny(r)}
                     ELSE src[r.id] \in {"<fresh>"} \cup {o.id : o \in {x \in brs : StatReusable(x, r)}}
            /\ st' = [id \in {r.id : r \in all} |->
                        IF id \in {r.id : r \in keep} THEN st[id]
                        ELSE IF kept[id] THEN st[src[id]] ELSE "closed"]
            /\ retryAt' = [id \in {r.id : r \in all} |->
                        IF id \in {r.id : r \in keep} THEN retryAt[id]
                        ELSE IF kept[id] THEN retryAt[src[id]] ELSE -1]
            /\ cnt' = [id \in {r.id : r \in all} |->
                        IF id \in {r.id : r \in keep} THEN cnt[id]
                        ELSE IF src[id] = "<fresh>" THEN <<>> ELSE cnt[src[id]]]
    /\ log' = <<>>
    /\ UNCHANGED <<on, inflight, foreign>>

LoadOther(ev) ==
    /\ ev.e = "load" /\ ev.fam # "cb" /\ on /\ ev.t >= now /\ now' = ev.t
    /\ foreign' = TRUE /\ log' = <<>>
    /\ UNCHANGED <<on, brs, order, st, retryAt, cnt, inflight>>

\* ext: blocked by a rule of another family
Enter(ev, ext) ==
    /\ ev.e = "enter" /\ on /\ ev.t >= now /\ now' = ev.t
    /\ ext => foreign
    /\ LET w == Walk(OrderOf(ev.res), 1, st, <<>>, <<>>, ev.t)
           blocked == w.blocked \/ ext
           rb == Rollback(w.probes, 1, w.st, w.log)
       IN  /\ st' = IF blocked THEN rb.st ELSE w.st
           /\ log' = IF blocked THEN rb.log ELSE w.log
           /\ inflight' = IF blocked THEN inflight
                          ELSE (ev.id :> [res |-> ev.res, start |-> ev.t, probes |-> w.probes]) @@ inflight
    /\ UNCHANGED <<on, brs, order, retryAt, cnt, foreign>>

EnterBlocked(ev, ext) == Walk(OrderOf(ev.res), 1, st, <<>>, <<>>, ev.t).blocked \/ ext
EnterByBreaker(ev) == Walk(OrderOf(ev.res), 1, st, <<>>, <<>>, ev.t).blocked

(* Completion: each breaker of the resource records the outcome and reacts.      *)
(* `stale` is the set of Half-Open breakers whose phase this (non-probe)          *)
(* completion leaves undecided.                                                    *)
RECURSIVE Complete(_, _, _, _, _, _, _, _, _, _)
Complete(ord, i, rt, err, probes, stale, s, ra, c, t) ==
    IF i > Len(ord) THEN [st |-> s, retryAt |-> ra, cnt |-> c, log |-> <<>>]
    ELSE LET id == ord[i]
             r == Rule(id)
             bad == IsBad(r, rt, err)
             b == Start(Lb(r), t)
             old == IF b \in DOMAIN c[id] THEN c[id][b] ELSE [total |-> 0, bad |-> 0]
             c1 == [c EXCEPT ![id] = (b :> [total |-> old.total + 1, bad |-> old.bad + (IF bad THEN 1 ELSE 0)]) @@ @]
             S == {x \in DOMAIN c1[id] : x >= Start(Lb(r), t) - r.I + Lb(r)}
             tot == Total(c1[id], S)
             bd == Bad(c1[id], S)
             step ==
                IF s[id] = "halfopen" /\ id \notin stale
                THEN IF bad
                     THEN [s |-> "open", ra |-> t + r.retry, c |-> c1[id],
                           lg |-> <<[to |-> "open", prev |-> "halfopen", rule |-> id]>>]
                     ELSE [s |-> "closed", ra |-> ra[id], c |-> <<>>,
                           lg |-> <<[to |-> "closed", prev |-> "halfopen", rule |-> id]>>]
                ELSE IF s[id] = "closed" /\ Tripped(r, tot, bd)
                     THEN [s |-> "open", ra |-> t + r.retry, c |-> c1[id],
                           lg |-> <<[to |-> "open", prev |-> "closed", rule |-> id]>>]
                     ELSE [s |-> s[id], ra |-> ra[id], c |-> c1[id], lg |-> <<>>]
             rest == Complete(ord, i + 1, rt, err, probes, stale,
                              [s EXCEPT ![id] = step.s], [ra EXCEPT ![id] = step.ra], [c1 EXCEPT ![id] = step.c], t)
         IN  [rest EXCEPT !.log = step.lg \o @]

Exit(ev, stale) ==
    /\ ev.e = "exit" /\ on /\ ev.t >= now /\ now' = ev.t
    /\ IF ev.id \in DOMAIN inflight
       THEN LET en == inflight[ev.id]
                err == "err" \in DOMAIN ev /\ ev.err
                ord == OrderOf(en.res)
                r == Complete(ord, 1, ev.t - en.start, err, en.probes, stale, st, retryAt, cnt, ev.t)
            IN  /\ stale \subseteq {id \in SeqToSet(ord) : st[id] = "halfopen" /\ id \notin SeqToSet(en.probes)}
                /\ st' = r.st /\ retryAt' = r.retryAt /\ cnt' = r.cnt /\ log' = r.log
                \* a probe mark lasts as long as its Half-Open phase
                /\ LET ended == {id \in DOMAIN st : st[id] = "halfopen" /\ r.st[id] # "halfopen"} IN
                   inflight' = [i \in DOMAIN inflight \ {ev.id} |->
                                  [inflight[i] EXCEPT !.probes = SelectSeq(@, LAMBDA id : id \notin ended)]]
       ELSE stale = {} /\ log' = <<>> /\ UNCHANGED <<st, retryAt, cnt, inflight>>
    /\ UNCHANGED <<on, brs, order, foreign>>

Adv(ev) ==
    /\ ev.e = "adv" /\ on /\ ev.t >= now /\ now' = ev.t /\ log' = <<>>
    /\ UNCHANGED <<on, brs, order, st, retryAt, cnt, inflight, foreign>>

BreakerInit ==
    /\ on = FALSE /\ now = 0 /\ brs = {} /\ order = <<>> /\ st = <<>> /\ retryAt = <<>> /\ cnt = <<>>
    /\ inflight = <<>> /\ log = <<>> /\ foreign = FALSE

(* ------------------------------ invariants ------------------------------ *)
\* at most one un-completed probe per Half-Open breaker
OneProbe == \A r \in brs : st[r.id] = "halfopen" =>
               Cardinality({e \in DOMAIN inflight : r.id \in SeqToSet(inflight[e].probes)}) <= 1
\* every listener record is a real edge of the machine
LogIsPath == \A i \in 1..Len(log) :
               <<log[i].prev, log[i].to>> \in {<<"closed", "open">>, <<"open", "halfopen">>,
                                               <<"halfopen", "open">>, <<"halfopen", "closed">>}
\* right after closing, the statistics are clear
ClearOnClose == \A i \in 1..Len(log) : log[i].to = "closed" /\ st[log[i].rule] = "closed" => cnt[log[i].rule] = <<>>
\* an Open breaker always has a retry instant
OpenHasRetry == \A r \in brs : st[r.id] = "open" => retryAt[r.id] >= 0
=============================================================================
