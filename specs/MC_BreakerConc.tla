--------------------------- MODULE MC_BreakerConc ---------------------------
(***************************************************************************)
(* Mechanism model behind C16: `try_pass` as the code has it - the state   *)
(* is read, the retry time-out is tested OUTSIDE the state mutex, then the *)
(* Open -> Half-Open transition is attempted under the mutex - and         *)
(* completions as "count; read state; guarded transition".  N threads each *)
(* do build ; exit(ok | error) after the breaker has been opened and its   *)
(* retry time-out has elapsed; every interleaving.                         *)
(*   Recheck = TRUE  (the code as repaired): the guarded transition tests  *)
(*                    the retry time-out again under the mutex;            *)
(*   Recheck = FALSE (the code as found): it only tests state = Open.  TLC *)
(*                    refutes NoEarlyProbe: a failing probe re-opens the   *)
(*                    breaker with a new retry time while another request, *)
(*                    which saw the old time-out elapsed, still performs   *)
(*                    the transition (ABA on Open).                        *)
(***************************************************************************)
EXTENDS Integers, FiniteSets, TLC

CONSTANTS N, Recheck, Retry

VARIABLES pc, st, retryAt, now, seen, admitted, fails, earlyProbe, probesInPhase
vars == <<pc, st, retryAt, now, seen, admitted, fails, earlyProbe, probesInPhase>>
Threads == 1..N

\* the breaker is Open and its retry time-out has just elapsed; thread t fails its call iff t is odd
Init == /\ pc = [t \in Threads |-> "read"] /\ st = "open" /\ retryAt = 10 /\ now = 10
        /\ seen = [t \in Threads |-> "none"] /\ admitted = [t \in Threads |-> FALSE]
        /\ fails = [t \in Threads |-> t % 2 = 1] /\ earlyProbe = FALSE /\ probesInPhase = 0

Read(t) == /\ pc[t] = "read"
           /\ seen' = [seen EXCEPT ![t] = st]
           /\ pc' = [pc EXCEPT ![t] = IF st = "closed" THEN "admit" ELSE IF st = "open" THEN "timeout" ELSE "reject"]
           /\ UNCHANGED <<st, retryAt, now, admitted, fails, earlyProbe, probesInPhase>>
Timeout(t) == /\ pc[t] = "timeout"
              /\ pc' = [pc EXCEPT ![t] = IF now >= retryAt THEN "cas" ELSE "reject"]
              /\ UNCHANGED <<st, retryAt, now, seen, admitted, fails, earlyProbe, probesInPhase>>
Cas(t) == /\ pc[t] = "cas"
          /\ IF st = "open" /\ (Recheck => now >= retryAt)
             THEN /\ st' = "halfopen" /\ pc' = [pc EXCEPT ![t] = "admit"]
                  /\ earlyProbe' = (earlyProbe \/ now < retryAt)
                  /\ probesInPhase' = probesInPhase + 1
             ELSE /\ st' = st /\ pc' = [pc EXCEPT ![t] = "reject"] /\ UNCHANGED <<earlyProbe, probesInPhase>>
          /\ UNCHANGED <<retryAt, now, seen, admitted, fails>>
Admit(t) == /\ pc[t] = "admit" /\ admitted' = [admitted EXCEPT ![t] = TRUE] /\ pc' = [pc EXCEPT ![t] = "complete"]
            /\ UNCHANGED <<st, retryAt, now, seen, fails, earlyProbe, probesInPhase>>
Reject(t) == /\ pc[t] = "reject" /\ pc' = [pc EXCEPT ![t] = "done"]
             /\ UNCHANGED <<st, retryAt, now, seen, admitted, fails, earlyProbe, probesInPhase>>
\* completion: read the state, then the guarded transition
Complete(t) == /\ pc[t] = "complete"
               /\ seen' = [seen EXCEPT ![t] = st]
               /\ pc' = [pc EXCEPT ![t] = IF st = "halfopen" THEN "decide" ELSE IF st = "closed" /\ fails[t] THEN "trip" ELSE "done"]
               /\ UNCHANGED <<st, retryAt, now, admitted, fails, earlyProbe, probesInPhase>>
Decide(t) == /\ pc[t] = "decide"
             /\ IF st = "halfopen"
                THEN /\ st' = IF fails[t] THEN "open" ELSE "closed"
                     /\ retryAt' = IF fails[t] THEN now + Retry ELSE retryAt
                     /\ probesInPhase' = 0
                ELSE UNCHANGED <<st, retryAt, probesInPhase>>
             /\ pc' = [pc EXCEPT ![t] = "done"]
             /\ UNCHANGED <<now, seen, admitted, fails, earlyProbe>>
Trip(t) == /\ pc[t] = "trip"
           /\ IF st = "closed" THEN st' = "open" /\ retryAt' = now + Retry ELSE UNCHANGED <<st, retryAt>>
           /\ pc' = [pc EXCEPT ![t] = "done"]
           /\ UNCHANGED <<now, seen, admitted, fails, earlyProbe, probesInPhase>>
Tick == /\ now < 10 + Retry /\ now' = now + 1
        /\ UNCHANGED <<pc, st, retryAt, seen, admitted, fails, earlyProbe, probesInPhase>>

Next == Tick \/ \E t \in Threads : Read(t) \/ Timeout(t) \/ Cas(t) \/ Admit(t) \/ Reject(t) \/ Complete(t) \/ Decide(t) \/ Trip(t)
Spec == Init /\ [][Next]_vars

\* no request performs the probe transition while the breaker is Open before its (current) retry time
NoEarlyProbe == ~earlyProbe
\* at most one probe per Half-Open phase
OneProbe == probesInPhase <= 1
=============================================================================
