------------------------------ MODULE NodeStore ------------------------------
(***************************************************************************)
(* C14 — concurrent entries share one statistics node, accounted without   *)
(* loss or excess.                                                         *)
(*                                                                         *)
(* Tier A (atomic).  One abstract node per resource.  `Build` and `Exit`   *)
(* take effect atomically at some point between their start and their end; *)
(* their effects on the node commute (counters), so any completion order   *)
(* is a linearisation and the final readings are determined:               *)
(*   in flight  = entries built and not exited;                            *)
(*   pass / complete / rt totals = sums over all threads, when the whole   *)
(*   activity falls within one statistic bucket; across a bucket roll-over *)
(*   the totals may miss events but never exceed the sums;                 *)
(*   every thread saw the same node, and it is the node the store holds.   *)
(***************************************************************************)
EXTENDS Integers, Sequences, FiniteSets, TLC

VARIABLES on, bucket, t0, open, passed, completed, rtlo, rthi, nodes, blocked, inbound

nvars == <<on, bucket, t0, open, passed, completed, rtlo, rthi, nodes, blocked, inbound>>

Begin(ev) ==
    /\ ev.e = "begin"
    /\ on' = TRUE /\ bucket' = ev.bucket /\ t0' = ev.t
    /\ open' = <<>> /\ passed' = 0 /\ completed' = 0 /\ rtlo' = 0 /\ rthi' = 0 /\ nodes' = {} /\ blocked' = 0 /\ inbound' = 0

\* no rule is loaded: every build is admitted
Build(ev) ==
    /\ ev.e = "build" /\ on
    /\ ev.r = "pass"
    /\ ev.id \notin DOMAIN open
    /\ open' = (ev.id :> [t |-> ev.t, t2 |-> ev.t2, inb |-> ev["in"]]) @@ open
    /\ passed' = passed + 1
    /\ nodes' = nodes \cup {ev.node}
    /\ inbound' = inbound + (IF ev["in"] THEN 1 ELSE 0)
    /\ UNCHANGED <<on, bucket, t0, completed, rtlo, rthi, blocked>>

Exit(ev) ==
    /\ ev.e = "exit" /\ on
    /\ ev.r = "ok"
    /\ ev.id \in DOMAIN open
    /\ completed' = completed + 1
    \* the response time is measured between two clock readings taken somewhere inside the two calls
    /\ rtlo' = rtlo + (IF ev.t > open[ev.id].t2 THEN ev.t - open[ev.id].t2 ELSE 0)
    /\ rthi' = rthi + (ev.t2 - open[ev.id].t)
    /\ inbound' = inbound - (IF open[ev.id].inb THEN 1 ELSE 0)
    /\ open' = [i \in DOMAIN open \ {ev.id} |-> open[i]]
    /\ UNCHANGED <<on, bucket, t0, passed, nodes, blocked>>

Clock(ev) ==
    /\ ev.e = "clock" /\ on
    /\ UNCHANGED nvars

\* the readings taken once every thread has finished
End(ev) ==
    /\ ev.e = "end" /\ on
    /\ LET inflight == Cardinality(DOMAIN open)
           oneBucket == t0 \div bucket = ev.t \div bucket
       IN
       /\ ev.conc = inflight                                      \* in-flight count, always exact
       /\ ev.inb = inbound                                        \* ... also on the global inbound node
       /\ Cardinality(nodes) <= 1                                 \* one shared node
       /\ nodes # {} => ev.shared \in nodes                       \* ... and it is the one the store holds
       /\ IF oneBucket
          THEN ev.sum[1] = passed /\ ev.sum[3] = completed /\ ev.sum[5] >= rtlo /\ ev.sum[5] <= rthi
          ELSE ev.sum[1] <= passed /\ ev.sum[3] <= completed /\ ev.sum[5] <= rthi
       /\ ev.sum[2] = 0 /\ ev.sum[4] = 0
    /\ on' = FALSE
    /\ UNCHANGED <<bucket, t0, open, passed, completed, rtlo, rthi, nodes, blocked, inbound>>

Step(ev) == Begin(ev) \/ Build(ev) \/ Exit(ev) \/ Clock(ev) \/ End(ev)

NSInit == /\ on = FALSE /\ bucket = 500 /\ t0 = 0 /\ open = <<>> /\ passed = 0 /\ completed = 0 /\ rtlo = 0 /\ rthi = 0
          /\ nodes = {} /\ blocked = 0 /\ inbound = 0
=============================================================================
