SPECIFICATION Spec
CONSTANTS
  Fam = "sys"
  Sample = 400
INVARIANT PrintCase
CHECK_DEADLOCK FALSE
