------------------------------- MODULE Stat -------------------------------
(***************************************************************************)
(* C02 — sliding-window statistics report exactly the events inside the    *)
(* window.                                                                 *)
(*                                                                         *)
(* Tier A (the property): `ghost` is the bag of recorded events, keyed by  *)
(* the start of the time bucket they fall in.  A reading for a window      *)
(* ending at time t is the fold over the ghost buckets whose start lies in *)
(* [Start(t) - J + L, Start(t)].                                           *)
(*                                                                         *)
(* Tier B (the mechanism): `ring` is the circular array of n slots with    *)
(* lazily re-stamped / reset slots, shaped like LeapArray::get_bucket_of_  *)
(* time.  RingRefines says every ring reading equals the ghost reading.    *)
(*                                                                         *)
(* Times are integer milliseconds relative to an epoch T0 that only the    *)
(* harness knows; T0 is a multiple of the array interval, so bucket        *)
(* alignment and slot indices are preserved.                               *)
(*                                                                         *)
(* The module has no Next of its own: MC_Stat draws events from a finite   *)
(* alphabet, Trace_Stat takes them from a recorded trace.  Both call       *)
(* Step(ev).                                                               *)
(***************************************************************************)
EXTENDS Integers, Sequences, FiniteSets, FiniteSetsExt, TLC

KindSeq == <<"pass", "block", "complete", "error", "rt">>
MAXRT == 60000          \* documented "no response time recorded" reading
ZB == [pass |-> 0, block |-> 0, complete |-> 0, error |-> 0, rt |-> 0, minrt |-> MAXRT]

VARIABLES
    on,     \* FALSE until the first reset event
    n,      \* bucket count of the underlying array
    L,      \* bucket length (ms) of the underlying array
    wins,   \* sequence of read windows [k, J] accepted at construction
    now,    \* time of the latest event
    ghost,  \* bucket start -> counters (finite domain)                 (Tier A)
    ring    \* 0..n-1 -> [start, val]; start = -1 is the empty sentinel (Tier B)

svars == <<on, n, L, wins, now, ghost, ring>>

Interval == n * L

(* ---------------------------------------------------------------------- *)
(* Construction predicates (the documented reuse condition)                *)
(* ---------------------------------------------------------------------- *)
ArrayOK(nn, ii) == nn > 0 /\ ii % nn = 0
\* interval 0 with a positive bucket count is outside the quantifier (bucket length >= 1)
ArrayAsserted(nn, ii) == ~(nn > 0 /\ ii = 0)

WindowOK(k, J, nn, ii) ==
    /\ k > 0 /\ J > 0 /\ J % k = 0
    /\ nn > 0 /\ ii > 0 /\ ii % nn = 0
    /\ ii % J = 0
    /\ (J \div k) % (ii \div nn) = 0

(* ---------------------------------------------------------------------- *)
(* Tier A readings, parametrised by the state they are taken in            *)
(* ---------------------------------------------------------------------- *)
Start(len, t) == t - (t % len)

GBuckets(g, lo, hi) == {b \in DOMAIN g : lo <= b /\ b <= hi}
GSum(g, lo, hi, kind) == FoldSet(LAMBDA b, acc : acc + g[b][kind], 0, GBuckets(g, lo, hi))
GMin(g, lo, hi) ==
    FoldSet(LAMBDA b, acc : IF g[b].minrt < acc THEN g[b].minrt ELSE acc, MAXRT, GBuckets(g, lo, hi))

WinRange(len, t, w) == LET end == Start(len, t) IN [lo |-> end - w.J + len, hi |-> end]

\* The window (k, J) read at time t over ghost g of an array with bucket length len.
Reading(g, len, t, w) ==
    LET r == WinRange(len, t, w) IN
    [ sum   |-> [i \in 1..5 |-> GSum(g, r.lo, r.hi, KindSeq[i])],
      minrt |-> GMin(g, r.lo, r.hi) ]

\* A look-back reading (qps_previous) is owed only if window + look-back fit the ring.
PrevFits(nn, len, w) == w.J + (w.J \div w.k) <= nn * len

\* Raw array reading (all non-deprecated buckets): the n most recent bucket starts, and at an
\* exact bucket boundary possibly also the bucket that started one interval ago.
RawNarrow(g, nn, len, t, kind) == GSum(g, Start(len, t) - nn * len + len, Start(len, t), kind)
RawWide(g, nn, len, t, kind)   == GSum(g, t - nn * len, Start(len, t), kind)

(* ---------------------------------------------------------------------- *)
(* Tier B: the ring                                                        *)
(* ---------------------------------------------------------------------- *)
Idx(nn, len, t) == (t \div len) % nn

Deprecated(s, t, ii) == t > s /\ t - s > ii

Touch(rg, nn, len, t) ==
    LET i == Idx(nn, len, t)
        s == Start(len, t)
    IN  IF rg[i].start = -1 THEN [rg EXCEPT ![i].start = s]             \* empty: stamp only
        ELSE IF rg[i].start = s THEN rg                                  \* current
        ELSE IF s > rg[i].start THEN [rg EXCEPT ![i] = [start |-> s, val |-> ZB]]   \* reuse
        ELSE rg                                                          \* time went back: refused

AddTo(v, kind, c) ==
    IF kind = "rt"
    THEN [v EXCEPT !.rt = @ + c, !.minrt = IF c < @ THEN c ELSE @]
    ELSE [v EXCEPT ![kind] = @ + c]

RSlots(rg, nn, len, t, lo, hi) ==
    {i \in 0..(nn - 1) : /\ rg[i].start # -1
                         /\ ~Deprecated(rg[i].start, t, nn * len)
                         /\ lo <= rg[i].start /\ rg[i].start <= hi}
RSum(rg, nn, len, t, lo, hi, kind) ==
    FoldSet(LAMBDA i, acc : acc + rg[i].val[kind], 0, RSlots(rg, nn, len, t, lo, hi))
RMin(rg, nn, len, t, lo, hi) ==
    FoldSet(LAMBDA i, acc : IF rg[i].val.minrt < acc THEN rg[i].val.minrt ELSE acc, MAXRT,
            RSlots(rg, nn, len, t, lo, hi))

RingReading(rg, nn, len, t, w) ==
    LET r == WinRange(len, t, w) IN
    [ sum   |-> [i \in 1..5 |-> RSum(rg, nn, len, t, r.lo, r.hi, KindSeq[i])],
      minrt |-> RMin(rg, nn, len, t, r.lo, r.hi) ]

RingRaw(rg, nn, len, t, kind) ==
    FoldSet(LAMBDA i, acc : acc + rg[i].val[kind], 0,
            {i \in 0..(nn - 1) : rg[i].start # -1 /\ ~Deprecated(rg[i].start, t, nn * len)})

(* The refinement: every reading of the ring equals the reading of the ghost. *)
RingRefines ==
    on => /\ \A wi \in 1..Len(wins) :
               /\ RingReading(ring, n, L, now, wins[wi]) = Reading(ghost, L, now, wins[wi])
               /\ PrevFits(n, L, wins[wi]) =>
                    LET t == now - (wins[wi].J \div wins[wi].k) IN
                    RingReading(ring, n, L, t, wins[wi]).sum = Reading(ghost, L, t, wins[wi]).sum
          /\ \A i \in 1..5 :
               RingRaw(ring, n, L, now, KindSeq[i]) \in
                   {RawNarrow(ghost, n, L, now, KindSeq[i]), RawWide(ghost, n, L, now, KindSeq[i])}

\* "events older than the window are never reported and no event inside it is missed", on the ring
NoStale ==
    on => \A wi \in 1..Len(wins) : \A i \in 0..(n - 1) :
            LET r == WinRange(L, now, wins[wi]) IN
            (i \in RSlots(ring, n, L, now, r.lo, r.hi)) => ring[i].start \in DOMAIN ghost \/ ring[i].val = ZB

(* ---------------------------------------------------------------------- *)
(* Events                                                                  *)
(* ---------------------------------------------------------------------- *)
Reset(ev) ==
    /\ ev.e = "reset"
    /\ ArrayOK(ev.n, ev.I) /\ ev.I > 0
    /\ on' = TRUE
    /\ n' = ev.n
    /\ L' = ev.I \div ev.n
    /\ wins' = SelectSeq(ev.wins, LAMBDA w : WindowOK(w.k, w.J, ev.n, ev.I))
    /\ now' = ev.t
    /\ ghost' = <<>>
    /\ ring' = [i \in 0..(ev.n - 1) |-> [start |-> -1, val |-> ZB]]

Write(ev) ==
    /\ ev.e = "write"
    /\ on /\ ev.t >= now
    /\ now' = ev.t
    /\ LET b == Start(L, ev.t)
           old == IF b \in DOMAIN ghost THEN ghost[b] ELSE ZB
       IN  ghost' = (b :> AddTo(old, ev.kind, ev.c)) @@ ghost
    /\ LET rg == Touch(ring, n, L, ev.t)
           i == Idx(n, L, ev.t)
       IN  ring' = [rg EXCEPT ![i].val = AddTo(@, ev.kind, ev.c)]
    /\ UNCHANGED <<on, n, L, wins>>

Adv(ev) ==
    /\ ev.e = "adv"
    /\ on /\ ev.t >= now
    /\ now' = ev.t
    /\ UNCHANGED <<on, n, L, wins, ghost, ring>>

\* construction attempts carry no state
New(ev) ==
    /\ ev.e \in {"newarr", "newwin"}
    /\ UNCHANGED svars

Step(ev) == Reset(ev) \/ Write(ev) \/ Adv(ev) \/ New(ev)

StatInit ==
    /\ on = FALSE /\ n = 1 /\ L = 1 /\ wins = <<>> /\ now = 0 /\ ghost = <<>>
    /\ ring = [i \in {0} |-> [start |-> -1, val |-> ZB]]
=============================================================================
