------------------------------- MODULE Stat -------------------------------
(***************************************************************************)
(* C02 — sliding-window statistics report exactly the events inside the    *)
(* window.                                                                 *)
(*                                                                         *)
(* Tier A (the property): `ghost` is the bag of recorded events, keyed by  *)
(* the start of the time bucket they fall in.  A reading for a window      *)
(* ending at time t is the fold over the ghost buckets whose start lies in *)
(* [Start(t) - J + L, Start(t)].                                           *)
(*                                                                         *)
(* Tier B (the mechanism): `ring` is the circular array of n slots with    *)
(* lazily re-stamped / reset slots, shaped like LeapArray::get_bucket_of_  *)
(* time.  RingRefines says every ring reading equals the ghost reading.    *)
(*                                                                         *)
(* Times are integer milliseconds relative to an epoch T0 that only the    *)
(* harness knows; T0 is a multiple of the array interval, so bucket        *)
(* alignment and slot indices are preserved.                               *)
(*                                                                         *)
(* The module has no Next of its own: MC_Stat draws events from a finite   *)
(* alphabet, Trace_Stat takes them from a recorded trace.  Both call       *)
(* Step(ev).                                                               *)
(***************************************************************************)
EXTENDS StatLib

VARIABLES
    on,     \* FALSE until the first reset event
    n,      \* bucket count of the underlying array
    L,      \* bucket length (ms) of the underlying array
    wins,   \* sequence of read windows [k, J] accepted at construction
    now,    \* time of the latest event
    ghost,  \* bucket start -> counters (finite domain)                 (Tier A)
    ring    \* 0..n-1 -> [start, val]; start = -1 is the empty sentinel (Tier B)

svars == <<on, n, L, wins, now, ghost, ring>>

Interval == n * L

(* The refinement: every reading of the ring equals the reading of the ghost. *)
RingRefines ==
    on => /\ \A wi \in 1..Len(wins) :
               /\ RingReading(ring, n, L, now, wins[wi]) = Reading(ghost, L, now, wins[wi])
               /\ PrevFits(n, L, wins[wi]) =>
                    LET t == now - (wins[wi].J \div wins[wi].k) IN
                    RingReading(ring, n, L, t, wins[wi]).sum = Reading(ghost, L, t, wins[wi]).sum
          /\ \A i \in 1..5 :
               RingRaw(ring, n, L, now, KindSeq[i]) \in
                   {RawNarrow(ghost, n, L, now, KindSeq[i]), RawWide(ghost, n, L, now, KindSeq[i])}

\* "events older than the window are never reported and no event inside it is missed", on the ring
NoStale ==
    on => \A wi \in 1..Len(wins) : \A i \in 0..(n - 1) :
            LET r == WinRange(L, now, wins[wi]) IN
            (i \in RSlots(ring, n, L, now, r.lo, r.hi)) => ring[i].start \in DOMAIN ghost \/ ring[i].val = ZB

(* ---------------------------------------------------------------------- *)
(* Events                                                                  *)
(* ---------------------------------------------------------------------- *)
Reset(ev) ==
    /\ ev.e = "reset"
    /\ ArrayOK(ev.n, ev.I) /\ ev.I > 0
    /\ on' = TRUE
    /\ n' = ev.n
    /\ L' = ev.I \div ev.n
    /\ wins' = SelectSeq(ev.wins, LAMBDA w : WindowOK(w.k, w.J, ev.n, ev.I))
    /\ now' = ev.t
    /\ ghost' = <<>>
    /\ ring' = [i \in 0..(ev.n - 1) |-> [start |-> -1, val |-> ZB]]

Write(ev) ==
    /\ ev.e = "write"
    /\ on /\ ev.t >= now
    /\ now' = ev.t
    /\ LET b == Start(L, ev.t)
           old == IF b \in DOMAIN ghost THEN ghost[b] ELSE ZB
       IN  ghost' = (b :> AddTo(old, ev.kind, ev.c)) @@ ghost
    /\ LET rg == Touch(ring, n, L, ev.t)
           i == Idx(n, L, ev.t)
       IN  ring' = [rg EXCEPT ![i].val = AddTo(@, ev.kind, ev.c)]
    /\ UNCHANGED <<on, n, L, wins>>

Adv(ev) ==
    /\ ev.e = "adv"
    /\ on /\ ev.t >= now
    /\ now' = ev.t
    /\ UNCHANGED <<on, n, L, wins, ghost, ring>>

\* construction attempts carry no state
New(ev) ==
    /\ ev.e \in {"newarr", "newwin"}
    /\ UNCHANGED svars

Step(ev) == Reset(ev) \/ Write(ev) \/ Adv(ev) \/ New(ev)

StatInit ==
    /\ on = FALSE /\ n = 1 /\ L = 1 /\ wins = <<>> /\ now = 0 /\ ghost = <<>>
    /\ ring = [i \in {0} |-> [start |-> -1, val |-> ZB]]
=============================================================================
