---------------------------- MODULE RuleManager ----------------------------
(***************************************************************************)
(* C10 — rule managers hold and enforce exactly the valid rules last       *)
(* given, including appends.  One specification for the five families      *)
(* (flow, iso, hot, cb, sys); a rule is the record of its descriptor.      *)
(*                                                                         *)
(* given[fam]  = the rules as last handed in (invalid ones included),      *)
(*               which is what "re-loading an identical set" compares to.  *)
(* active[fam] = the rules reported and enforced.  A valid rule given      *)
(*               under several ids may be kept once or several times, so   *)
(*               after a replacement `active` is any subset of the valid   *)
(*               given rules that represents every rule (under rule        *)
(*               equality, which ignores the id).                          *)
(***************************************************************************)
EXTENDS Integers, Sequences, FiniteSets, TLC

VARIABLES on, now, given, active,
    ever    \* every rule ever handed in since the reset (an equal rule may be reported under any id it was ever given)
rvars == <<on, now, given, active, ever>>

Fams == {"flow", "iso", "hot", "cb", "sys"}
SeqToSet(s) == {s[i] : i \in 1..Len(s)}

\* the key a rule is filed under: its resource, for system rules the metric
KeyOf(fam, r) == IF fam = "sys" THEN r.metric ELSE r.res

Valid(fam, r) ==
    CASE fam = "flow" -> /\ r.res # "" /\ r.thr[1] >= 0
                         /\ (r.rel = "associated" => r.ref # "")
                         /\ (r.calc = "warmup" => r.warm > 0 /\ r.cold # 1)
      [] fam = "iso"  -> r.res # "" /\ r.thr > 0
      [] fam = "hot"  -> r.res # "" /\ (r.metric = "qps" => r.dur > 0) /\ ~(r.idx > 0 /\ r.key # "")
      [] fam = "cb"   -> /\ r.res # "" /\ r.I > 0 /\ r.retry > 0 /\ r.thr[1] >= 0
                         /\ (r.strat # "ecount" => r.thr[1] <= r.thr[2])
      [] fam = "sys"  -> /\ r.thr[1] >= 0
                         /\ (r.metric = "cpu" => r.thr[1] <= 100 * r.thr[2])
                         /\ (r.metric = "load" => r.thr[1] <= r.thr[2])

\* rule equality ignores the id (descriptors carry exactly the fields equality looks at)
Eq(a, b) == [a EXCEPT !.id = ""] = [b EXCEPT !.id = ""]

\* S represents V: every rule of V has an equal rule in S and vice versa (ids are not part of a rule)
Represents(S, V) == (\A r \in V : \E x \in S : Eq(r, x)) /\ (\A x \in S : \E r \in V : Eq(r, x))
\* same rules under rule equality
SameRules(A, B) == (\A a \in A : \E b \in B : Eq(a, b)) /\ (\A b \in B : \E a \in A : Eq(a, b))
ValidOf(fam, S) == {r \in S : Valid(fam, r)}

\* What may be reported when the rules in force are V (under rule equality): V itself, or equal
\* rules known to the manager - an unchanged rule keeps its controller and is reported under the id it
\* was first given; a rule given under several ids is kept once or several times.
Reportable(fam, V, extra) ==
    LET cand == {c \in ever[fam] \cup given[fam] \cup active[fam] \cup extra \cup V : \E v \in V : Eq(c, v)} IN
    {A \in SUBSET cand : Represents(A, V)}

\* the same rule under several ids: how often it is kept - and therefore whether an identical
\* reload is recognised as such - is not determined
HasDups(S) == \E a, b \in S : a # b /\ Eq(a, b)

(* Each operation: [given', active' (a SET of allowed values), ret (set of allowed return strings)] *)
LoadAllSpec(fam, rs) ==
    LET S == SeqToSet(rs)
        V == ValidOf(fam, S)
    IN  IF S = given[fam] /\ ~HasDups(S)
        THEN [given |-> S, actives |-> {active[fam]}, rets |-> {"false", "()"}]              \* unchanged
        ELSE [given |-> S,
              actives |-> Reportable(fam, V, S) \cup (IF S = given[fam] THEN {active[fam]} ELSE {}),
              rets |-> IF S = given[fam] \/ (SameRules(V, ValidOf(fam, given[fam])) /\ S # {} /\ given[fam] # {})
                       THEN {"true", "false", "()"} ELSE {"true", "()"}]

LoadResSpec(fam, res, rs) ==
    LET S == SeqToSet(rs)
        mine(T) == {r \in T : KeyOf(fam, r) = res}
        rest(T) == {r \in T : KeyOf(fam, r) # res}
        oldG == mine(given[fam])
        V == ValidOf(fam, mine(S))
    IN  IF res = "" THEN [given |-> given[fam], actives |-> {active[fam]}, rets |-> {"err"}]
        ELSE IF S = {} THEN [given |-> rest(given[fam]), actives |-> {rest(active[fam])}, rets |-> {"true", "false"}]
        ELSE IF S = oldG /\ ~HasDups(S) THEN [given |-> given[fam], actives |-> {active[fam]}, rets |-> {"false"}]
        ELSE [given |-> rest(given[fam]) \cup S,
              actives |-> {rest(active[fam]) \cup A : A \in Reportable(fam, V, S)}
                          \cup (IF S = oldG THEN {active[fam]} ELSE {}),
              rets |-> IF S = oldG \/ SameRules(V, ValidOf(fam, oldG)) THEN {"true", "false"} ELSE {"true"}]

\* an append adds the rule and keeps every active rule
AppendSpec(fam, r) ==
    LET mine(T) == {x \in T : KeyOf(fam, x) = KeyOf(fam, r)}
        rest(T) == {x \in T : KeyOf(fam, x) # KeyOf(fam, r)}
    IN  IF ~Valid(fam, r)
        THEN [given |-> given[fam], actives |-> {active[fam]}, rets |-> {"true", "false"}]
        ELSE [given |-> given[fam] \cup {r},
              actives |-> {rest(active[fam]) \cup A : A \in Reportable(fam, mine(active[fam]) \cup {r}, {r})},
              rets |-> IF r \in given[fam] \/ (\E x \in active[fam] : Eq(x, r)) THEN {"true", "false"} ELSE {"true"}]

ClearAllSpec(fam) == [given |-> {}, actives |-> {{}}, rets |-> {"()"}]
ClearResSpec(fam, res) ==
    [given |-> {r \in given[fam] : KeyOf(fam, r) # res},
     actives |-> {{r \in active[fam] : KeyOf(fam, r) # res}}, rets |-> {"()"}]

OpSpec(ev) ==
    CASE ev.op = "all"      -> LoadAllSpec(ev.fam, ev.rules)
      [] ev.op = "res"      -> LoadResSpec(ev.fam, ev.res, ev.rules)
      [] ev.op = "append"   -> AppendSpec(ev.fam, ev.rules[1])
      [] ev.op = "clear"    -> ClearAllSpec(ev.fam)
      [] ev.op = "clearres" -> ClearResSpec(ev.fam, ev.res)

\* A: the active set after the operation (one of the allowed ones)
Op(ev, A) ==
    /\ ev.e = "load" /\ on /\ ev.t >= now /\ now' = ev.t
    /\ LET sp == OpSpec(ev) IN
       /\ A \in sp.actives
       /\ given' = [given EXCEPT ![ev.fam] = sp.given]
       /\ active' = [active EXCEPT ![ev.fam] = A]
    /\ ever' = [ever EXCEPT ![ev.fam] = @ \cup SeqToSet(ev.rules)]
    /\ UNCHANGED on

\* Enforcement probe on an idle resource with empty windows: a request of n tokens is blocked iff
\* some active rule of the family is exceeded by n alone.
ProbeBlocked(ev) ==
    LET rs == {r \in active[ev.fam] : KeyOf(ev.fam, r) = ev.res} IN
    CASE ev.fam = "iso"  -> \E r \in rs : ev.n > r.thr
      [] ev.fam = "flow" -> \E r \in rs : ev.n * r.thr[2] > r.thr[1]
      [] OTHER -> FALSE

Probe(ev) ==
    /\ ev.e = "probe" /\ on /\ ev.t >= now /\ now' = ev.t
    /\ UNCHANGED <<on, given, active, ever>>

Reset(ev) ==
    /\ ev.e = "reset"
    /\ on' = TRUE /\ now' = ev.t
    /\ given' = [f \in Fams |-> {}] /\ active' = [f \in Fams |-> {}] /\ ever' = [f \in Fams |-> {}]

RMInit == on = FALSE /\ now = 0 /\ given = [f \in Fams |-> {}] /\ active = [f \in Fams |-> {}] /\ ever = [f \in Fams |-> {}]

(* invariants *)
OnlyValid == \A f \in Fams : \A r \in active[f] : Valid(f, r) /\ \E g \in given[f] : Eq(g, r)
AllRepresented == \A f \in Fams : \A r \in ValidOf(f, given[f]) : \E x \in active[f] : Eq(r, x)
=============================================================================
