-------------------------- MODULE TokenBucketInd --------------------------
(***************************************************************************)
(* C06, unbounded: one bucket of `TokenBucket!DecideQ` driven by arbitrary *)
(* requests (any batch count >= 1, any non-decreasing instants).  Apalache *)
(* discharges                                                              *)
(*     Init => IndInv            (length 0)                                *)
(*     IndInv /\ Next => IndInv' (length 1, --init=IndInit)                *)
(* and IndInv => Bound, the inequality the property states:                *)
(*     admitted <= q + b + q * (now - first) / d.                          *)
(* The parameters are CONSTANTS chosen by ConstInit from ranges, so one    *)
(* run covers every combination in the range symbolically.                 *)
(***************************************************************************)
EXTENDS Integers, TokenBucket

CONSTANTS
    \* @type: Int;
    Q,
    \* @type: Int;
    B,
    \* @type: Int;
    D

VARIABLES
    \* @type: Bool;
    seen,
    \* @type: $bucket;
    bkt,
    \* @type: Int;
    now

ConstInit == Q \in Nat /\ B \in Nat /\ D \in Nat /\ D >= 1

Zero == [tokens |-> 0, last |-> 0, first |-> 0, admitted |-> 0]

Init == seen = FALSE /\ bkt = Zero /\ now = 0

Request ==
    \E n \in Nat : \E t \in Nat :
        /\ n >= 1 /\ t >= now
        /\ LET v == DecideQ(Q, Q + B, D, n, t, seen, bkt) IN
           /\ now' = t
           /\ seen' = (seen \/ v.touched)
           /\ bkt' = v.b
Tick == \E t \in Nat : t >= now /\ now' = t /\ UNCHANGED <<seen, bkt>>
Next == Request \/ Tick

\* what the property states (multiplied out by d)
Bound == seen => (bkt.admitted - (Q + B)) * D <= Q * (now - bkt.first)
\* a request is rejected only for want of tokens: the bucket never goes negative nor above capacity
Sane == seen => (bkt.tokens >= 0 /\ bkt.tokens <= Q + B)

\* everything ever credited: capacity at birth plus at most q per d since then
IndInv ==
    /\ now >= 0
    /\ (~seen) => bkt = Zero
    /\ seen =>
        /\ Q > 0
        /\ bkt.first >= 0 /\ bkt.first <= bkt.last /\ bkt.last <= now
        /\ bkt.tokens >= 0 /\ bkt.tokens <= Q + B
        /\ bkt.admitted >= 1
        /\ (bkt.admitted + bkt.tokens - (Q + B)) * D <= Q * (bkt.last - bkt.first)

IndInit ==
    /\ seen \in BOOLEAN
    /\ now \in Nat
    /\ \E a \in Nat, b \in Nat, c \in Nat, d \in Nat :
          bkt = [tokens |-> a, last |-> b, first |-> c, admitted |-> d]
    /\ IndInv

Implied == IndInv => (Bound /\ Sane)
=============================================================================
