---------------------------- MODULE MC_NodeStore ----------------------------
(***************************************************************************)
(* Mechanism model behind C14: get-or-create of the statistics node as the *)
(* separately locked steps the code has, the counters as atomic steps, and *)
(* N threads doing build ; exit on one brand-new resource - all            *)
(* interleavings.  At quiescence the atomic statement of NodeStore.tla     *)
(* must hold: one node, in-flight = 0, pass = complete = N.                *)
(*   Variant "three-step" (the code as found): read-lock lookup; write-lock *)
(*   insert (unconditionally); read-lock fetch.  TLC refutes it: two       *)
(*   threads both miss, both insert, one entry is accounted on an orphan.  *)
(*   Variant "entry" (the code as repaired): insert under the write lock   *)
(*   only if still missing and return what the map holds.                  *)
(* A third knob models a non-atomic decrement of the in-flight counter     *)
(* (load ; store), which TLC refutes as well.                              *)
(***************************************************************************)
EXTENDS Integers, FiniteSets, TLC

CONSTANTS N, Variant, AtomicDec

VARIABLES pc, stored, mine, conc, pass, complete, tmp
vars == <<pc, stored, mine, conc, pass, complete, tmp>>
Threads == 1..N

Init == /\ pc = [t \in Threads |-> "lookup"] /\ stored = 0 /\ mine = [t \in Threads |-> 0]
        /\ conc = [k \in 0..N |-> 0] /\ pass = [k \in 0..N |-> 0] /\ complete = [k \in 0..N |-> 0]
        /\ tmp = [t \in Threads |-> 0]

Lookup(t) == /\ pc[t] = "lookup"
             /\ IF stored # 0 THEN mine' = [mine EXCEPT ![t] = stored] /\ pc' = [pc EXCEPT ![t] = "inc"]
                ELSE mine' = mine /\ pc' = [pc EXCEPT ![t] = "insert"]
             /\ UNCHANGED <<stored, conc, pass, complete, tmp>>
Insert(t) == /\ pc[t] = "insert"
             /\ IF Variant = "entry"
                THEN /\ stored' = IF stored = 0 THEN t ELSE stored
                     /\ mine' = [mine EXCEPT ![t] = stored']
                     /\ pc' = [pc EXCEPT ![t] = "inc"]
                ELSE /\ stored' = t /\ mine' = mine /\ pc' = [pc EXCEPT ![t] = "fetch"]
             /\ UNCHANGED <<conc, pass, complete, tmp>>
Fetch(t) == /\ pc[t] = "fetch" /\ mine' = [mine EXCEPT ![t] = stored] /\ pc' = [pc EXCEPT ![t] = "inc"]
            /\ UNCHANGED <<stored, conc, pass, complete, tmp>>
Inc(t) == /\ pc[t] = "inc" /\ conc' = [conc EXCEPT ![mine[t]] = @ + 1] /\ pc' = [pc EXCEPT ![t] = "pass"]
          /\ UNCHANGED <<stored, mine, pass, complete, tmp>>
Pass(t) == /\ pc[t] = "pass" /\ pass' = [pass EXCEPT ![mine[t]] = @ + 1] /\ pc' = [pc EXCEPT ![t] = "complete"]
           /\ UNCHANGED <<stored, mine, conc, complete, tmp>>
Complete(t) == /\ pc[t] = "complete" /\ complete' = [complete EXCEPT ![mine[t]] = @ + 1]
               /\ pc' = [pc EXCEPT ![t] = IF AtomicDec THEN "dec" ELSE "decload"]
               /\ UNCHANGED <<stored, mine, conc, pass, tmp>>
Dec(t) == /\ pc[t] = "dec" /\ conc' = [conc EXCEPT ![mine[t]] = @ - 1] /\ pc' = [pc EXCEPT ![t] = "done"]
          /\ UNCHANGED <<stored, mine, pass, complete, tmp>>
DecLoad(t) == /\ pc[t] = "decload" /\ tmp' = [tmp EXCEPT ![t] = conc[mine[t]]] /\ pc' = [pc EXCEPT ![t] = "decstore"]
              /\ UNCHANGED <<stored, mine, conc, pass, complete>>
DecStore(t) == /\ pc[t] = "decstore" /\ conc' = [conc EXCEPT ![mine[t]] = IF tmp[t] > 0 THEN tmp[t] - 1 ELSE @]
               /\ pc' = [pc EXCEPT ![t] = "done"]
               /\ UNCHANGED <<stored, mine, pass, complete, tmp>>

Next == \E t \in Threads : Lookup(t) \/ Insert(t) \/ Fetch(t) \/ Inc(t) \/ Pass(t) \/ Complete(t) \/ Dec(t)
                           \/ DecLoad(t) \/ DecStore(t)
Spec == Init /\ [][Next]_vars

Quiescent == \A t \in Threads : pc[t] = "done"
\* the atomic statement at quiescence
Atomic == Quiescent => /\ \A t \in Threads : mine[t] = stored
                       /\ conc[stored] = 0 /\ pass[stored] = N /\ complete[stored] = N
=============================================================================
