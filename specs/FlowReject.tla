---------------------------- MODULE FlowReject ----------------------------
(***************************************************************************)
(* C01 — reject-type flow control admits a request iff it fits every       *)
(* rule's statistic window; C11 (flow part) — a reload keeps the window of *)
(* an unchanged rule.                                                      *)
(*                                                                         *)
(* Tier A.  `adm[res]` is the ghost sequence of admissions <<t, n>> on a   *)
(* resource.  A rule's statistic window at time t is bucket-aligned:       *)
(*    [Start_len(t) - I + len, Start_len(t) + len)                         *)
(* where len is the bucket length of the statistics that serve the rule:   *)
(* the resource's global array for the default interval and for intervals  *)
(* that pass the reuse check, a private array otherwise.  A private window *)
(* only sees admissions made after it was created (sinceIdx).              *)
(* Thresholds are rationals <<num, den>>.                                  *)
(***************************************************************************)
EXTENDS Integers, Sequences, FiniteSets, FiniteSetsExt, TLC

VARIABLES
    on,
    cfg,       \* [nt, It, n, I]: global array and default metric window
    now,       \* ms, relative to the history's epoch
    rules,     \* set of active (valid) flow rule records [id, res, thr, I]
    sinceIdx,  \* rule id -> number of admissions on its resource that its private window does NOT see
    adm,       \* resource -> sequence of [t, n]
    given,     \* rules as last handed in (invalid ones included)
    mem        \* the collected memory usage (bytes) that memory-adaptive rules look at

fvars == <<on, cfg, now, rules, sinceIdx, adm, given, mem>>

Lg == cfg.It \div cfg.nt
Start(len, t) == t - (t % len)

WindowOK(k, J, nn, ii) ==
    /\ k > 0 /\ J > 0 /\ J % k = 0 /\ nn > 0 /\ ii > 0 /\ ii % nn = 0
    /\ ii % J = 0 /\ (J \div k) % (ii \div nn) = 0

\* How the statistics of a rule are chosen (documented in the rule's stat_interval_ms field)
SampleCount(r) == IF r.I > Lg /\ r.I < cfg.It /\ r.I % Lg = 0 THEN r.I \div Lg ELSE 1
IsDefault(r) == r.I = 0 \/ r.I = cfg.I
IsShared(r)  == IsDefault(r) \/ WindowOK(SampleCount(r), r.I, cfg.nt, cfg.It)
Interval(r)  == IF IsDefault(r) THEN cfg.I ELSE r.I
BucketLen(r) == IF IsShared(r) THEN Lg ELSE r.I \div SampleCount(r)

WinLo(r, t) == Start(BucketLen(r), t) - Interval(r) + BucketLen(r)

Adm(res) == IF res \in DOMAIN adm THEN adm[res] ELSE <<>>

\* tokens admitted inside the rule's current window
WinSum(r, t) ==
    LET a == Adm(r.res)
        first == IF IsShared(r) THEN 1 ELSE sinceIdx[r.id] + 1
        S == {i \in first..Len(a) : a[i].t >= WinLo(r, t)}
    IN  FoldSet(LAMBDA i, acc : acc + a[i].n, 0, S)

\* The threshold in force.  A memory-adaptive rule (calc = "mem") has no fixed threshold: it allows
\* lmu tokens while memory usage is below the low-water mark, hmu above the high-water mark, and the
\* linear interpolation in between (a rational here).
IsMem(r) == "calc" \in DOMAIN r /\ r.calc = "mem"
Thr(r) == IF ~IsMem(r) THEN r.thr
          ELSE IF mem > r.mhw THEN <<r.hmu, 1>>
          ELSE IF mem < r.mlw THEN <<r.lmu, 1>>
          ELSE <<(r.hmu - r.lmu) * (mem - r.mlw) + r.lmu * (r.mhw - r.mlw), r.mhw - r.mlw>>

Fits(r, n, t) == (WinSum(r, t) + n) * Thr(r)[2] <= Thr(r)[1]

RulesOf(res) == {r \in rules : r.res = res}

Valid(r) == /\ r.res # "" /\ r.thr[1] >= 0
            /\ IsMem(r) => (r.mlw # 0 /\ r.mhw # 0 /\ r.hmu # 0 /\ r.lmu # 0 /\ r.hmu < r.lmu /\ r.mlw < r.mhw)
MemKey(r) == IF IsMem(r) THEN <<r.lmu, r.hmu, r.mlw, r.mhw>> ELSE <<>>
SameRule(a, b) == /\ a.res = b.res /\ a.thr[1] * b.thr[2] = b.thr[1] * a.thr[2] /\ a.I = b.I
                  /\ MemKey(a) = MemKey(b)
StatReusable(a, b) == a.res = b.res /\ a.I = b.I

SeqToSet(s) == {s[i] : i \in 1..Len(s)}

(* ---------------------------------------------------------------------- *)
Reset(ev) ==
    /\ ev.e = "reset"
    /\ on' = TRUE
    /\ cfg' = ev.cfg
    /\ now' = ev.t
    /\ rules' = {} /\ sinceIdx' = <<>> /\ adm' = <<>> /\ given' = {} /\ mem' = 0

\* The private window a (re)loaded rule ends up with: that of an equal old rule; else that of an
\* old rule with the same interval (the code hands the statistics over) or a fresh one.
\* `same`: the rules of r's resource after the load equal, as a set under rule equality, those before it -
\* the case the property speaks about; when another rule of the resource changed in the same call the
\* code may hand an old window to the changed rule and rebuild the unchanged one: either way is allowed.
SinceChoices(r, same) ==
    LET eq == {o \in rules : SameRule(o, r)}
        ru == {o \in rules : StatReusable(o, r)}
    IN  IF eq # {} /\ same THEN {sinceIdx[o.id] : o \in eq}
        ELSE {Len(Adm(r.res))} \cup {sinceIdx[o.id] : o \in ru}
SameSets(A, B) == (\A a \in A : \E b \in B : SameRule(a, b)) /\ (\A b \in B : \E a \in A : SameRule(a, b))

ChoiceFns(new, keep) ==
    LET ids == {r.id : r \in new \cup keep}
        same(r) == SameSets({o \in rules : o.res = r.res}, {x \in new \cup keep : x.res = r.res})
        \* only a private window has a beginning; for a rule served by the shared array the entry is unused
        \* and kept at 0, so that trace validation does not branch on it
        choices(r) == IF IsShared(r) THEN {0} ELSE SinceChoices(r, same(r))
        rng == UNION {choices(r) : r \in new} \cup {sinceIdx[r.id] : r \in keep}
    IN  {f \in [ids -> rng] : /\ \A r \in new : f[r.id] \in choices(r)
                              /\ \A r \in keep : f[r.id] = sinceIdx[r.id]}

LoadAll(ev) ==
    /\ ev.e = "load" /\ ev.fam = "flow" /\ ev.op = "all"
    /\ on /\ ev.t >= now /\ now' = ev.t
    /\ LET new == {r \in SeqToSet(ev.rules) : Valid(r)} IN
       /\ rules' = new
       /\ sinceIdx' \in ChoiceFns(new, {})
    /\ given' = SeqToSet(ev.rules)
    /\ UNCHANGED <<on, cfg, adm, mem>>

LoadRes(ev) ==
    /\ ev.e = "load" /\ ev.fam = "flow" /\ ev.op = "res"
    /\ on /\ ev.t >= now /\ now' = ev.t
    /\ LET new == {r \in SeqToSet(ev.rules) : Valid(r) /\ r.res = ev.res}
           keep == {r \in rules : r.res # ev.res}
       IN
       /\ rules' = keep \cup new
       /\ sinceIdx' \in ChoiceFns(new, keep)
    /\ given' = {g \in given : g.res # ev.res} \cup SeqToSet(ev.rules)
    /\ UNCHANGED <<on, cfg, adm, mem>>

\* the decision of one request
Decision(res, n, t) ==
    LET bad == {r \in RulesOf(res) : ~Fits(r, n, t)} IN
    [pass |-> bad = {}, culprits |-> {r.id : r \in bad}, bad |-> bad]

Enter(ev) ==
    /\ ev.e = "enter"
    /\ on /\ ev.t >= now /\ now' = ev.t
    /\ LET d == Decision(ev.res, ev.n, ev.t) IN
       adm' = IF d.pass /\ ev.n > 0      \* a zero-token admission leaves no trace
              THEN (ev.res :> Append(Adm(ev.res), [t |-> ev.t, n |-> ev.n])) @@ adm
              ELSE adm
    /\ UNCHANGED <<on, cfg, rules, sinceIdx, given, mem>>

\* exits and pure clock steps do not influence flow decisions
Other(ev) ==
    /\ ev.e \in {"exit", "adv"}
    /\ on /\ ev.t >= now /\ now' = ev.t
    /\ UNCHANGED <<on, cfg, rules, sinceIdx, adm, given, mem>>

\* the memory collector reports another reading
SysMem(ev) ==
    /\ ev.e = "sysmem"
    /\ on /\ ev.t >= now /\ now' = ev.t
    /\ mem' = ev.v
    /\ UNCHANGED <<on, cfg, rules, sinceIdx, adm, given>>

Step(ev) == Reset(ev) \/ LoadAll(ev) \/ LoadRes(ev) \/ Enter(ev) \/ Other(ev) \/ SysMem(ev)

FlowInit ==
    /\ on = FALSE /\ cfg = [nt |-> 20, It |-> 10000, n |-> 2, I |-> 1000] /\ now = 0
    /\ rules = {} /\ sinceIdx = <<>> /\ adm = <<>> /\ given = {} /\ mem = 0

(* ---------------------------------------------------------------------- *)
(* The consequence stated in the property: tokens admitted in a rule's    *)
(* current window never exceed its threshold (for a rule that has been    *)
(* active for the whole window - checked in the model where rules are     *)
(* loaded once).                                                           *)
\* (fixed thresholds; a memory-adaptive threshold moves with the memory reading)
NoOverAdmission == \A r \in rules : ~IsMem(r) => WinSum(r, now) * r.thr[2] <= r.thr[1]
=============================================================================
