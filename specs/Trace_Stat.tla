----------------------------- MODULE Trace_Stat -----------------------------
(* Trace validation for Stat: every recorded event must be a Step of the spec and every      *)
(* logged reading must equal the Tier-A reading computed from the ghost.                      *)
EXTENDS Stat, Json, IOUtils

Rec == ndJsonDeserialize(IOEnv.TRACE)

VARIABLE l
tvars == <<svars, l>>

\* o is the logged observation of one window, taken right after the event (primed state)
WinObsOK(o, g, nn, len, t, w) ==
    LET rd == Reading(g, len, t, w)
        pv == Reading(g, len, t - (w.J \div w.k), w)
    IN  /\ o.sum = rd.sum
        /\ o.minrt = rd.minrt
        /\ \A i \in 1..5 : o.qj[i] = 1000 * rd.sum[i]
        /\ PrevFits(nn, len, w) => \A i \in 1..5 : o.pj[i] = 1000 * pv.sum[i]
        /\ o.avgc = IF rd.sum[3] = 0 THEN 0 ELSE rd.sum[5]

ObsOK(ev, g, nn, len, t, ws) ==
    /\ Len(ev.obs) = Len(ws)
    /\ \A wi \in 1..Len(ws) : WinObsOK(ev.obs[wi], g, nn, len, t, ws[wi])
    /\ \A i \in 1..5 : ev.raw[i] \in {RawNarrow(g, nn, len, t, KindSeq[i]), RawWide(g, nn, len, t, KindSeq[i])}
    \* the per-second items over all valid buckets (with or without the boundary bucket, as for the raw reading)
    /\ "secs" \in DOMAIN ev =>
          {ev.secs[i] : i \in 1..Len(ev.secs)} \in
              {SecItems(g, Start(len, t) - nn * len + len, Start(len, t), ev.secoff),
               SecItems(g, t - nn * len, Start(len, t), ev.secoff)}

EvOK(ev) ==
    CASE ev.e = "reset"  -> /\ ev.ok
                            /\ \A i \in 1..Len(ev.wins) :
                                  ev.wins[i].ok = WindowOK(ev.wins[i].k, ev.wins[i].J, ev.n, ev.I)
      [] ev.e = "newarr" -> ArrayAsserted(ev.n, ev.I) => (ev.ok = ArrayOK(ev.n, ev.I))
      [] ev.e = "newwin" -> ArrayAsserted(ev.n, ev.I) => (ev.ok = WindowOK(ev.k, ev.J, ev.n, ev.I))
      [] ev.e \in {"write", "adv"} -> ObsOK(ev, ghost', n', L', now', wins')
      [] OTHER -> FALSE

TraceInit == StatInit /\ l = 1
TraceNext ==
    /\ l <= Len(Rec)
    /\ l' = l + 1
    /\ Step(Rec[l])
    /\ EvOK(Rec[l])
TraceSpec == TraceInit /\ [][TraceNext]_tvars

TraceAccepted ==
    LET d == TLCGet("stats").diameter IN
    IF d - 1 = Len(Rec) THEN TRUE
    ELSE /\ PrintT(<<"TRACE_REJECTED", d, Len(Rec), ToJson(Rec[d])>>)
         /\ FALSE
=============================================================================
