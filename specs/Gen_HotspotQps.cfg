SPECIFICATION MCSpec
CONSTANTS
  GenMode = TRUE
  GenDepth = 5
  MaxT = 100000
  MaxN = 2
  MaxSteps = 100
  DTSel = "min"
  ArgSel = "min"
  RuleSets <- SetsSmall
CONSTRAINT GenBound
INVARIANT PrintBehaviour
CHECK_DEADLOCK FALSE
