SPECIFICATION Spec
CONSTANTS
  Fam = "hot"
  Sample = 12000
INVARIANT PrintCase
CHECK_DEADLOCK FALSE
