--------------------------- MODULE MC_FlowReject ---------------------------
EXTENDS FlowReject, Json, SequencesExt

CONSTANTS GenMode, GenDepth, MaxT, MaxN, MaxAdm, RuleSets, MaxReloads

VARIABLES hist, nrel
mcvars == <<fvars, hist, nrel>>

\* scaled geometry: global array 4 x 2 ms, default metric window 2 x 2 ms
Cfg == [nt |-> 4, It |-> 8, n |-> 2, I |-> 4]

R(id, num, den, iv) == [id |-> id, res |-> "r1", thr |-> <<num, den>>, I |-> iv]
\* intervals: 0 default, 2 one global bucket, 8 whole array, 3 private single bucket,
\* 6 private three buckets, 16 private longer than the global array, 5 and 7 private single buckets whose
\* length lies between the global bucket length and the global interval without being a multiple of it
Singles == { <<R("f1", num, den, iv)>> : num \in {0, 2, 3}, den \in {1, 2}, iv \in {0, 2, 8, 3, 6, 16, 5, 7} }
Pairs   == { <<R("f1", 3, 2, 0), R("f2", 2, 1, 8)>>, <<R("f1", 2, 1, 3), R("f2", 3, 1, 6)>>,
             <<R("f1", 1, 1, 2), R("f2", 3, 1, 16)>>, <<R("f1", 2, 1, 0), R("f2", 2, 1, 0)>>,
             <<R("f1", 3, 1, 8), R("f2", 1, 1, 3), R("f3", 2, 1, 6)>> }
SetsSmall == { <<R("f1", 3, 2, 0)>>, <<R("f1", 2, 1, 3)>>, <<R("f1", 2, 1, 6)>>, <<R("f1", 2, 1, 8)>> } \cup Pairs
SetsAll == Singles \cup Pairs
\* a memory-adaptive rule (allows 3 tokens below 1024 bytes, 1 above 2048, interpolated between), alone and
\* next to a fixed rule
M(id, iv) == [id |-> id, res |-> "r1", thr |-> <<1, 1>>, I |-> iv, calc |-> "mem", lmu |-> 3, hmu |-> 1, mlw |-> 1024, mhw |-> 2048]
SetsMem == { <<M("f1", 0)>>, <<M("f1", 8)>>, <<M("f1", 0), R("f2", 2, 1, 8)>> }
MemEvents == IF \E r \in given : IsMem(r)
             THEN {[e |-> "sysmem", v |-> v, t |-> now] : v \in {0, 1024, 1536, 2048, 3000}} ELSE {}

ResetEvents == {[e |-> "reset", t |-> 0, cfg |-> Cfg, align |-> 1680, obs |-> 0]}   \* align: the harness epoch is a multiple of every interval
LoadEvents == {[e |-> "load", fam |-> "flow", op |-> "all", t |-> now, rules |-> rs] : rs \in RuleSets}

\* steps: none, 1, to just before / onto the next global bucket boundary, one bucket, the default
\* window, the whole array, more than the longest private window
DTs == ({0, 1, Lg - (now % Lg) - 1, Lg - (now % Lg), Lg, cfg.I, cfg.It, 17} \ {-1})

EnterEvents == {[e |-> "enter", id |-> Len(hist), res |-> "r1", n |-> n, t |-> now + dt] : n \in 0..MaxN, dt \in DTs}
AdvEvents == {[e |-> "adv", t |-> now + dt] : dt \in DTs \ {0}}

\* C11: the same rules again, under regenerated ids, in another order, with an unrelated resource
\* added - through load-all or load-for-resource
Renamed(r, k) == [r EXCEPT !.id = r.id \o "x" \o ToString(k)]
ReloadEvents ==
    IF nrel >= MaxReloads \/ given = {} THEN {}
    ELSE LET rs == SetToSeq({Renamed(r, nrel + 1) : r \in given}) IN
         {[e |-> "load", fam |-> "flow", op |-> "all", t |-> now, rules |-> rs \o <<[R("z" \o ToString(nrel), 1, 1, 0) EXCEPT !.res = "rz"]>>],
          [e |-> "load", fam |-> "flow", op |-> "res", res |-> "r1", t |-> now, rules |-> rs]}

MCEvents == IF ~on THEN ResetEvents
            ELSE IF given = {} THEN LoadEvents
            ELSE EnterEvents \cup AdvEvents \cup ReloadEvents \cup MemEvents

MCInit == FlowInit /\ hist = <<>> /\ nrel = 0
MCNext == \E ev \in MCEvents : /\ Step(ev) /\ hist' = (IF GenMode THEN Append(hist, ev) ELSE <<>>)
                              /\ nrel' = IF ev \in ReloadEvents THEN nrel + 1 ELSE nrel
MCSpec == MCInit /\ [][MCNext]_mcvars

Tokens == FoldSet(LAMBDA i, acc : acc + 1, 0, DOMAIN Adm("r1"))
StateBound == now <= MaxT /\ Len(Adm("r1")) <= MaxAdm
GenBound == Len(hist) <= GenDepth /\ now <= MaxT
PrintBehaviour == (GenMode /\ Len(hist) = GenDepth) => PrintT(<<"REPLAY", ToJson(hist)>>)

GoalBlockedAtBoundary == ~(on /\ now % Lg = 0 /\ now > 0 /\ \E r \in rules : ~Fits(r, 1, now))
GoalPrivateExpires == ~(\E r \in rules : ~IsShared(r) /\ Len(Adm("r1")) > 0 /\ WinSum(r, now) = 0)
GoalTwoAdmissions == ~(Len(Adm("r1")) >= 2)
=============================================================================
