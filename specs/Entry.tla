------------------------------- MODULE Entry -------------------------------
(***************************************************************************)
(* C04 — every entry is accounted exactly once (pass xor block,            *)
(* completion, in-flight), and                                             *)
(* C05 — concurrency caps (isolation, hotspot concurrency) hold and are    *)
(* reported rightly.                                                       *)
(*                                                                         *)
(* State: per statistics node (one per resource, plus the global inbound   *)
(* node "__inb__") the ghost of recorded events and the in-flight count;   *)
(* the open entries; the isolation and hotspot-concurrency rules and the   *)
(* per-value in-flight counts of the latter.                               *)
(*                                                                         *)
(* The decision of an entry is prescribed as far as isolation / hotspot    *)
(* concurrency rules go; rules of other families (`foreign`) may block it  *)
(* too - that is for their own specifications to decide.                   *)
(***************************************************************************)
EXTENDS StatLib

INB == "__inb__"

VARIABLES
    on, cfg, now,
    nodes,     \* name -> [g : ghost, conc : Nat]
    open,      \* entry id -> [res, inb, n, start, vals]  (vals: hotspot rule id -> extracted value)
    iso,       \* set of isolation rules [id, res, thr]
    hot,       \* set of hotspot concurrency rules [id, res, idx, key, thr, spec]
    hotc,      \* hotspot rule id -> (value -> in-flight count)
    foreign,   \* TRUE once rules of another family are loaded (they may block as well)
    sys,       \* set of system rules [id, metric, thr, strat]                               (C09)
    sload,     \* injected system load reading  <<num, den>>
    scpu       \* injected CPU usage reading    <<num, den>>

evars == <<on, cfg, now, nodes, open, iso, hot, hotc, foreign, sys, sload, scpu>>

Lg == cfg.It \div cfg.nt
SeqToSet(s) == {s[i] : i \in 1..Len(s)}

Node(name) == IF name \in DOMAIN nodes THEN nodes[name] ELSE [g |-> <<>>, conc |-> 0]

\* the default metric window of a node read at time t
NodeReading(nd, t) ==
    LET lo == Start(Lg, t) - cfg.I + Lg
        hi == Start(Lg, t)
    IN  [ sum   |-> [i \in 1..5 |-> GSum(nd.g, lo, hi, KindSeq[i])],
          minrt |-> GMin(nd.g, lo, hi),
          conc  |-> nd.conc ]

Record(nd, t, kind, c) == [nd EXCEPT !.g = GAdd(@, Lg, t, kind, c)]

(* ----------------------------- rules ---------------------------------- *)
IsoValid(r) == r.res # "" /\ r.thr > 0
HotValid(r) == r.res # "" /\ ~(r.idx > 0 /\ r.key # "")

\* the parameter value a hotspot rule looks at: key in the attachments first, else the index in
\* the argument list (negative indices count from the end); NoVal if absent
NoVal == "<none>"
Extract(r, args, att) ==
    LET k == r.key IN
    IF k # "" /\ k \in DOMAIN att THEN att[k]
    ELSE IF Len(args) = 0 THEN NoVal
    ELSE LET i == IF r.idx < 0 THEN r.idx + Len(args) ELSE r.idx IN
         IF i < 0 \/ i >= Len(args) THEN NoVal ELSE args[i + 1]

ThrOf(r, v) == IF v \in DOMAIN r.spec THEN r.spec[v] ELSE r.thr
Cnt(r, v) == IF r.id \in DOMAIN hotc /\ v \in DOMAIN hotc[r.id] THEN hotc[r.id][v] ELSE 0

IsoOf(res) == {r \in iso : r.res = res}
HotOf(res) == {r \in hot : r.res = res}

IsoBad(res, n) == {r \in IsoOf(res) : Node(res).conc + n > r.thr}
\* hotspot concurrency: rejected for sure / possibly (a batch may or may not weigh as n)
HotMust(res, n, args, att) ==
    {r \in HotOf(res) : LET v == Extract(r, args, att) IN
        v # NoVal /\ ThrOf(r, v) >= 1 /\ Cnt(r, v) + 1 > ThrOf(r, v)}
HotMay(res, n, args, att) ==
    {r \in HotOf(res) : LET v == Extract(r, args, att) IN
        v # NoVal /\ (ThrOf(r, v) = 0 \/ Cnt(r, v) + n > ThrOf(r, v))}

Args(ev) == IF "args" \in DOMAIN ev THEN ev.args ELSE <<>>
Att(ev)  == IF "att" \in DOMAIN ev THEN ev.att ELSE <<>>
Inb(ev)  == "in" \in DOMAIN ev /\ ev.in

(* ------------------------ system rules (C09) -------------------------- *)
SysValid(r) ==
    /\ r.thr[1] >= 0
    /\ r.metric = "cpu" => r.thr[1] <= 100 * r.thr[2]
    /\ r.metric = "load" => r.thr[1] <= r.thr[2]

\* the inbound node as the system slot reads it at time t
InbWin(t) == LET nd == Node(INB) IN
    [ lo |-> Start(Lg, t) - cfg.I + Lg, hi |-> Start(Lg, t), g |-> nd.g, conc |-> nd.conc ]
MaxBucket(g, lo, hi, kind) ==
    FoldSet(LAMBDA b, acc : IF g[b][kind] > acc THEN g[b][kind] ELSE acc, 0, GBuckets(g, lo, hi))

\* BBR lets the request through unless more than one request is in flight and their number
\* exceeds the estimated capacity  max-completed-per-second * min-rt / 1000
BbrOverloaded(t) ==
    LET w == InbWin(t)
        maxb == MaxBucket(w.g, w.lo, w.hi, "complete")
        minrt == GMin(w.g, w.lo, w.hi)
    IN  w.conc > 1 /\ w.conc * cfg.I > maxb * cfg.n * minrt

Gt(a, b) == a[1] * b[2] > b[1] * a[2]       \* rationals with positive denominators

SysTrip(r, t) ==
    LET w == InbWin(t)
        pass == GSum(w.g, w.lo, w.hi, "pass")
        comp == GSum(w.g, w.lo, w.hi, "complete")
        rt   == GSum(w.g, w.lo, w.hi, "rt")
    IN  CASE r.metric = "qps"  -> pass * 1000 * r.thr[2] >= r.thr[1] * cfg.I
          [] r.metric = "conc" -> w.conc * r.thr[2] >= r.thr[1]
          [] r.metric = "rt"   -> IF comp = 0 THEN r.thr[1] = 0 ELSE rt * r.thr[2] >= r.thr[1] * comp
          [] r.metric = "load" -> Gt(sload, r.thr) /\ (r.strat # "bbr" \/ BbrOverloaded(t))
          [] r.metric = "cpu"  -> Gt(scpu, r.thr) /\ (r.strat # "bbr" \/ BbrOverloaded(t))

\* the value the rejection must carry, times 1000 (rt: [lo, hi] because of rounding)
SysSnapOK(r, t, snap) ==
    LET w == InbWin(t)
        pass == GSum(w.g, w.lo, w.hi, "pass")
        comp == GSum(w.g, w.lo, w.hi, "complete")
        rt   == GSum(w.g, w.lo, w.hi, "rt")
    IN  CASE r.metric = "qps"  -> snap * cfg.I = pass * 1000 * 1000
          [] r.metric = "conc" -> snap = w.conc * 1000
          [] r.metric = "rt"   -> IF comp = 0 THEN snap = 0
                                  ELSE snap * comp >= rt * 1000 - comp /\ snap * comp <= rt * 1000 + comp
          [] r.metric = "load" -> snap * sload[2] = sload[1] * 1000
          [] r.metric = "cpu"  -> snap * scpu[2] = scpu[1] * 1000

SysBad(ev) == IF Inb(ev) THEN {r \in sys : SysTrip(r, ev.t)} ELSE {}

(* The allowed outcomes of an entry request: a set of [pass, bt, rules].  *)
Outcomes(ev) ==
    LET ib == IsoBad(ev.res, ev.n)
        hm == HotMust(ev.res, ev.n, Args(ev), Att(ev))
        hy == HotMay(ev.res, ev.n, Args(ev), Att(ev))
        sb == SysBad(ev)
    IN  (IF ib = {} /\ hm = {} /\ sb = {} THEN {[pass |-> TRUE, bt |-> "", rules |-> {}]} ELSE {})
        \cup (IF sb # {} THEN {[pass |-> FALSE, bt |-> "system", rules |-> {r.id : r \in sb}]} ELSE {})
        \cup (IF ib # {} THEN {[pass |-> FALSE, bt |-> "isolation", rules |-> {r.id : r \in ib}]} ELSE {})
        \cup (IF hy # {} THEN {[pass |-> FALSE, bt |-> "hotspot", rules |-> {r.id : r \in hy}]} ELSE {})
        \cup (IF foreign THEN {[pass |-> FALSE, bt |-> "foreign", rules |-> {}]} ELSE {})

\* A throttling rule of another family may hold the caller inside the call: the entry starts at
\* ev.t (its response time counts from there) but is recorded when the call returns.
Tend(ev) == IF "dtms" \in DOMAIN ev
            THEN ev.t + ev.dtms + (((IF "tn" \in DOMAIN ev THEN ev.tn ELSE 0) + ev.dtsub) \div 1000000)
            ELSE ev.t

(* ----------------------------- events --------------------------------- *)
Reset(ev) ==
    /\ ev.e = "reset"
    /\ on' = TRUE /\ cfg' = ev.cfg /\ now' = ev.t
    /\ nodes' = <<>> /\ open' = <<>> /\ iso' = {} /\ hot' = {} /\ hotc' = <<>> /\ foreign' = FALSE
    /\ sys' = {} /\ sload' = <<0, 1>> /\ scpu' = <<0, 1>>

Load(ev) ==
    /\ ev.e = "load" /\ on /\ ev.t >= now /\ now' = ev.t
    /\ CASE ev.fam = "iso" /\ ev.op = "all" ->
              /\ iso' = {r \in SeqToSet(ev.rules) : IsoValid(r)}
              /\ UNCHANGED <<hot, hotc, foreign, sys>>
         [] ev.fam = "sys" /\ ev.op = "all" ->
              /\ sys' = {r \in SeqToSet(ev.rules) : SysValid(r)}
              /\ UNCHANGED <<iso, hot, hotc, foreign>>
         [] ev.fam = "hot" /\ ev.op = "all" ->
              /\ hot' = {r \in SeqToSet(ev.rules) : HotValid(r) /\ r.metric = "conc"}
              /\ hotc' = [id \in {r.id : r \in hot'} |->
                            LET r == CHOOSE x \in hot' : x.id = id
                                eq == {o \in hot : [o EXCEPT !.id = ""] = [r EXCEPT !.id = ""]}
                            IN  IF eq # {} THEN hotc[(CHOOSE o \in eq : TRUE).id] ELSE <<>>]
              /\ foreign' = (foreign \/ \E r \in SeqToSet(ev.rules) : r.metric # "conc")
              /\ UNCHANGED <<iso, sys>>
         [] OTHER -> foreign' = TRUE /\ UNCHANGED <<iso, hot, hotc, sys>>
    \* loading a flow rule may create the resource's node; an empty node reads like no node
    /\ UNCHANGED <<on, cfg, nodes, open, sload, scpu>>

\* o is the outcome taken (one of Outcomes(ev))
Enter(ev, o) ==
    /\ ev.e = "enter" /\ on /\ ev.t >= now /\ now' = Tend(ev)
    /\ o \in Outcomes(ev)
    /\ LET kind == IF o.pass THEN "pass" ELSE "block"
           upd(nd) == LET a == Record(nd, Tend(ev), kind, ev.n) IN
                      IF o.pass THEN [a EXCEPT !.conc = @ + 1] ELSE a
           n1 == (ev.res :> upd(Node(ev.res))) @@ nodes
       IN  nodes' = IF Inb(ev) THEN (INB :> upd(IF INB \in DOMAIN n1 THEN n1[INB] ELSE [g |-> <<>>, conc |-> 0])) @@ n1 ELSE n1
    /\ LET vals == [id \in {r.id : r \in HotOf(ev.res)} |->
                      Extract(CHOOSE r \in hot : r.id = id, Args(ev), Att(ev))]
       IN
       /\ open' = IF o.pass
                  THEN (ev.id :> [res |-> ev.res, inb |-> Inb(ev), n |-> ev.n, start |-> ev.t, vals |-> vals]) @@ open
                  ELSE open
       /\ hotc' = IF o.pass
                  THEN [id \in DOMAIN hotc |->
                          IF id \in DOMAIN vals /\ vals[id] # NoVal
                          THEN (vals[id] :> (Cnt(CHOOSE r \in hot : r.id = id, vals[id]) + 1)) @@ hotc[id]
                          ELSE hotc[id]]
                  ELSE hotc
    /\ UNCHANGED <<on, cfg, iso, hot, foreign, sys, sload, scpu>>

Exit(ev) ==
    /\ ev.e = "exit" /\ on /\ ev.t >= now /\ now' = ev.t
    /\ IF ev.id \in DOMAIN open
       THEN LET en == open[ev.id]
                upd(nd) == [Record(Record(nd, ev.t, "rt", ev.t - en.start), ev.t, "complete", en.n)
                              EXCEPT !.conc = @ - 1]
                n1 == (en.res :> upd(Node(en.res))) @@ nodes
            IN  /\ nodes' = IF en.inb THEN (INB :> upd(n1[INB])) @@ n1 ELSE n1
                /\ open' = [i \in DOMAIN open \ {ev.id} |-> open[i]]
                /\ hotc' = [id \in DOMAIN hotc |->
                              IF id \in DOMAIN en.vals /\ en.vals[id] # NoVal /\ en.vals[id] \in DOMAIN hotc[id]
                              THEN [hotc[id] EXCEPT ![en.vals[id]] = @ - 1]
                              ELSE hotc[id]]
       ELSE UNCHANGED <<nodes, open, hotc>>
    /\ UNCHANGED <<on, cfg, iso, hot, foreign, sys, sload, scpu>>

Adv(ev) ==
    /\ ev.e \in {"adv", "sysload", "syscpu"} /\ on /\ ev.t >= now /\ now' = ev.t
    /\ sload' = IF ev.e = "sysload" THEN ev.v ELSE sload
    /\ scpu' = IF ev.e = "syscpu" THEN ev.v ELSE scpu
    /\ UNCHANGED <<on, cfg, nodes, open, iso, hot, hotc, foreign, sys>>

EntryInit ==
    /\ on = FALSE /\ cfg = [nt |-> 20, It |-> 10000, n |-> 2, I |-> 1000] /\ now = 0
    /\ nodes = <<>> /\ open = <<>> /\ iso = {} /\ hot = {} /\ hotc = <<>> /\ foreign = FALSE
    /\ sys = {} /\ sload = <<0, 1>> /\ scpu = <<0, 1>>

(* ----------------------------- invariants ----------------------------- *)
OpenOn(name) == {i \in DOMAIN open : open[i].res = name}
\* C04: in-flight count = number of un-exited passed entries
InflightExact ==
    /\ \A name \in DOMAIN nodes \ {INB} : nodes[name].conc = Cardinality(OpenOn(name))
    /\ INB \in DOMAIN nodes => nodes[INB].conc = Cardinality({i \in DOMAIN open : open[i].inb})
\* C05: caps hold (for rules in force since before the open entries were admitted)
IsoCap == \A r \in iso : Node(r.res).conc <= r.thr
HotCap == \A r \in hot : \A v \in DOMAIN hotc[r.id] : ThrOf(r, v) = 0 \/ hotc[r.id][v] <= ThrOf(r, v)
=============================================================================
