----------------------------- MODULE MC_Breaker -----------------------------
EXTENDS Breaker, Json

CONSTANTS GenMode, GenDepth, MaxT, MaxC, MaxOpen, RuleSets, WithIso

VARIABLES hist, ph
mcvars == <<bvars, hist, ph>>

\* window 4 ms; retry 3 (shorter than the window) or 6 (longer); slow if rt > 1
BR(id, strat, retry, minreq, nb, num, den) ==
    [id |-> id, res |-> "r1", strat |-> strat, retry |-> retry, minreq |-> minreq, I |-> 4, nb |-> nb,
     maxrt |-> 1, thr |-> <<num, den>>]

Singles ==
    { <<BR("c1", "ecount", rt, mr, nb, k, 1)>> : rt \in {2, 6}, mr \in 0..2, nb \in {1, 2}, k \in {1, 2} }
    \cup { <<BR("c1", s, rt, mr, nb, num, 2)>> : s \in {"eratio", "slow"}, rt \in {2, 6}, mr \in 0..2, nb \in {1, 2}, num \in {0, 1, 2} }
Pairs == { <<BR("c1", "ecount", 2, 1, 1, 1, 1), BR("c2", "slow", 6, 0, 2, 1, 2)>>,
           <<BR("c1", "eratio", 2, 2, 2, 1, 2), BR("c2", "ecount", 2, 0, 1, 2, 1)>> }
SetsSmall == { <<BR("c1", "ecount", 2, 1, 1, 1, 1)>>, <<BR("c1", "eratio", 6, 2, 2, 1, 2)>>,
               <<BR("c1", "slow", 2, 0, 1, 1, 2)>>, <<BR("c1", "ecount", 6, 2, 2, 2, 1)>> } \cup Pairs
SetsAll == Singles \cup Pairs

DTs == {0, 2, 4, 6}

Log(ev) == hist' = (IF GenMode THEN Append(hist, ev) ELSE <<>>)

MCInit == BreakerInit /\ hist = <<>> /\ ph = 0
MCNext ==
    \/ /\ ph = 0
       /\ LET ev == [e |-> "reset", t |-> 0, obs |-> 1, align |-> 4] IN Reset(ev) /\ Log(ev) /\ ph' = 1
    \/ /\ ph = 1 /\ WithIso
       /\ LET ev == [e |-> "load", fam |-> "iso", op |-> "all", t |-> now, rules |-> <<[id |-> "i1", res |-> "r1", thr |-> 1]>>] IN
             LoadOther(ev) /\ Log(ev) /\ ph' = 2
    \/ /\ ph = (IF WithIso THEN 2 ELSE 1)
       /\ \E rs \in RuleSets : LET ev == [e |-> "load", fam |-> "cb", op |-> "all", t |-> now, rules |-> rs] IN
             \E ord \in [{"r1"} -> Perms({r.id : r \in SeqToSet(rs)})] : LoadCb(ev, ord) /\ Log(ev) /\ ph' = 3
    \/ /\ ph = 3 /\ Cardinality(DOMAIN inflight) < MaxOpen
       /\ \E dt \in DTs : \E ext \in BOOLEAN :
             LET ev == [e |-> "enter", id |-> IF GenMode THEN Len(hist) ELSE Cardinality(DOMAIN inflight), res |-> "r1", n |-> 1, t |-> now + dt] IN
             ev.id \notin DOMAIN inflight /\ Enter(ev, ext) /\ Log(ev) /\ ph' = 3
    \/ /\ ph = 3
       /\ \E dt \in DTs : \E i \in DOMAIN inflight : \E err \in BOOLEAN :
             LET ev == [e |-> "exit", id |-> i, t |-> now + dt, err |-> err] IN
             \E stale \in SUBSET {r.id : r \in brs} : Exit(ev, stale) /\ Log(ev) /\ ph' = 3
    \/ /\ ph = 3
       /\ \E dt \in DTs \ {0} : LET ev == [e |-> "adv", t |-> now + dt] IN Adv(ev) /\ Log(ev) /\ ph' = 3
MCSpec == MCInit /\ [][MCNext]_mcvars

Completions == FoldSet(LAMBDA id, acc : acc + Total(cnt[id], DOMAIN cnt[id]), 0, DOMAIN cnt)
StateBound == now <= MaxT /\ Completions <= MaxC
GenBound == Len(hist) <= GenDepth /\ now <= MaxT
PrintBehaviour == (GenMode /\ Len(hist) = GenDepth) => PrintT(<<"REPLAY", ToJson(hist)>>)

GoalHalfOpenThenClosed == ~(\E i \in 1..Len(log) : log[i].to = "closed")
GoalReopen == ~(\E i \in 1..Len(log) : log[i].to = "open" /\ log[i].prev = "halfopen")
GoalRollback == ~(Len(log) >= 2 /\ log[1].to = "halfopen" /\ log[2].to = "open")
GoalWindowExpiry == ~(\E r \in brs : st[r.id] = "closed" /\ cnt[r.id] # <<>> /\ InWin(r, now) = {})
=============================================================================
