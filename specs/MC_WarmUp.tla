------------------------------ MODULE MC_WarmUp ------------------------------
EXTENDS WarmUp, Json

CONSTANTS MaxHalf, GenMode, GenDepth

VARIABLE hist

\* demand per bucket: nothing, below q/c, exactly the current allowance, saturating
Demands == {0, Lo \div 4, Q}

\* long idle gaps are taken in one go (P, 2P, 5P seconds) to keep the horizon small
Gap(k) ==
    /\ half % 2 = 0
    /\ half' = half + 2 * k
    /\ admB' = <<0, 0, 0, 0>> /\ offB' = <<0, 0, 0, 0>>
    /\ run' = 0 /\ idle' = idle + k /\ lastAdm' = 0
    /\ coldAt' = (coldAt \/ idle + k >= 2 * P)
    /\ UNCHANGED <<stored, lastFill, synced, ok>>

Log(x) == hist' = (IF GenMode THEN Append(hist, x) ELSE <<>>)
MCNext == (\E d \in Demands : Step(d) /\ Log([d |-> d])) \/ (\E k \in {P, 2 * P, 5 * P} : Gap(k) /\ Log([gap |-> k]))
MCSpec == WarmInit /\ hist = <<[q |-> Q, c |-> C, p |-> P]>> /\ [][MCNext]_<<wvars, hist>>
GenBound == Len(hist) <= GenDepth
PrintBehaviour == (GenMode /\ Len(hist) = GenDepth) => PrintT(<<"REPLAY", ToJson(hist)>>)
Bound == half <= MaxHalf
GoalRun1 == ~(run >= 1)
GoalAdm == ~(lastAdm >= 10)
GoalWarm == ~(run >= 2 * P + 2 /\ lastAdm >= Q - Tau)
GoalColdAgain == ~(coldAt /\ half > 4 * P)
=============================================================================
