------------------------ MODULE Trace_PropertyHandler ------------------------
EXTENDS PropertyHandler, Json, IOUtils
Rec == ndJsonDeserialize(IOEnv.TRACE)
VARIABLE l
tvars == <<phvars, l>>
Has(ev, f) == f \in DOMAIN ev
ObsActive(ev) == {r \in ever["flow"] \cup SeqToSet(ev.rules) \cup active["flow"] : r.id \in SeqToSet(ev.after)}
TraceInit == PHInit /\ l = 1
TraceNext ==
    /\ l <= Len(Rec) /\ l' = l + 1
    /\ LET ev == Rec[l] IN
       CASE ev.e = "reset" -> ev.ok /\ PHReset(ev)
         [] ev.e = "handle" ->
              /\ ~Has(ev, "panic")
              /\ \A id \in SeqToSet(ev.after) : \E r \in ObsActive(ev) : r.id = id
              /\ Handle(ev, ObsActive(ev))
         [] OTHER -> FALSE
TraceSpec == TraceInit /\ [][TraceNext]_tvars
TraceAccepted ==
    LET d == TLCGet("stats").diameter IN
    IF d - 1 = Len(Rec) THEN TRUE
    ELSE /\ PrintT(<<"TRACE_REJECTED", d, Len(Rec), ToJson(Rec[d])>>)
         /\ FALSE
=============================================================================
