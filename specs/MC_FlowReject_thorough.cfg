SPECIFICATION MCSpec
CONSTANTS
  GenMode = FALSE
  GenDepth = 0
  MaxT = 18
  MaxAdm = 4
  MaxReloads = 0
  MaxN = 2
  RuleSets <- SetsAll
CONSTRAINT StateBound
INVARIANT NoOverAdmission
CHECK_DEADLOCK FALSE
