SPECIFICATION Spec
CONSTANTS
  N = 3
  Recheck = TRUE
  Retry = 2
INVARIANTS NoEarlyProbe OneProbe
CHECK_DEADLOCK FALSE
