------------------------------ MODULE MC_Codec ------------------------------
(* Enumerates the cases of C18: sampled (or all) rules of a family x document edits. *)
EXTENDS Codec, Json, Randomization, SequencesExt

CONSTANTS Fam, Sample
VARIABLES case, done
vars == <<case, done>>

\* numbers beyond TLC's integers are named; the harness maps the names to values and back
Extra == IF Fam = "hot"
         THEN {[id |-> "x", res |-> "r1", metric |-> "qps", ctl |-> "reject", idx |-> 0, key |-> "", thr |-> [sym |-> s],
                maxq |-> 0, burst |-> 0, dur |-> 1, cap |-> 0, spec |-> <<>>] : s \in {"P53P1", "I64MAX", "U64MAX"}}
         ELSE IF Fam = "flow"
         THEN {[id |-> "x", res |-> "r1", ref |-> "", calc |-> "mem", ctl |-> "reject", rel |-> "current", thr |-> <<1, 1>>,
                warm |-> 0, cold |-> 0, maxq |-> 0, I |-> 0, lmu |-> [sym |-> a], hmu |-> 1, mlw |-> [sym |-> b], mhw |-> [sym |-> "U64MAX"]]
               : a \in {"P53P1", "I64MAX"}, b \in {"P53P1", "I64MAX"}}
         ELSE {}
Rules == IF Sample = 0 THEN Space(Fam) ELSE RandomSubset(Sample, Space(Fam))
F == Fields(Fam)
Edits == {[drop |-> <<>>, wrong |-> "", rev |-> FALSE], [drop |-> <<>>, wrong |-> "", rev |-> TRUE],
          [drop |-> SetToSeq(F), wrong |-> "", rev |-> FALSE], [drop |-> SetToSeq(F \ {"id"}), wrong |-> "", rev |-> FALSE]}
         \cup {[drop |-> <<f>>, wrong |-> "", rev |-> FALSE] : f \in F}
         \cup {[drop |-> <<f, "thr">>, wrong |-> "", rev |-> TRUE] : f \in F \ {"thr"}}
         \cup {[drop |-> <<>>, wrong |-> f, rev |-> FALSE] : f \in F}

Init == case = <<>> /\ done = FALSE
Next == /\ ~done /\ done' = TRUE
        /\ \/ \E r \in Rules : \E e \in Edits :
                case' = [kind |-> "rule", fam |-> Fam, rule |-> r, drop |-> e.drop, wrong |-> e.wrong, rev |-> e.rev]
           \/ \E r \in Extra : \E e \in Edits :
                case' = [kind |-> "rule", fam |-> Fam, rule |-> r, drop |-> e.drop, wrong |-> e.wrong, rev |-> e.rev]
Spec == Init /\ [][Next]_vars
PrintCase == done => PrintT(<<"REPLAY", ToJson(<<case>>)>>)
=============================================================================
