SPECIFICATION MCSpec
CONSTANTS
  GenMode = TRUE
  GenDepth = 13
  MaxT = 100000
  DTSel = "lru"
  MaxN = 2
  FlowSets <- FlowNone
  HotSets <- HotLru
CONSTRAINT GenBound
CHECK_DEADLOCK FALSE
INVARIANT PrintBehaviour
