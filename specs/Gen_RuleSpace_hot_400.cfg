SPECIFICATION Spec
CONSTANTS
  Fam = "hot"
  Sample = 400
INVARIANT PrintCase
CHECK_DEADLOCK FALSE
