SPECIFICATION MCSpec
CONSTANTS
  GenMode = FALSE
  GenDepth = 0
  Fam = "flow"
  MaxSet = 3
INVARIANT OnlyValid
INVARIANT AllRepresented
CHECK_DEADLOCK FALSE
