SPECIFICATION MCSpec
CONSTANTS
  GenMode = FALSE
  GenDepth = 0
  MaxT = 3100
  DTSel = "min"
  ArgSel = "min"
  MaxN = 2
  MaxSteps = 5
  RuleSets <- SetsSmall
CONSTRAINT StateBound
INVARIANT Bound
INVARIANT TokensSane
CHECK_DEADLOCK FALSE
