SPECIFICATION Spec
CONSTANTS
  Fam = "flow"
  Sample = 1500
INVARIANT PrintCase
CHECK_DEADLOCK FALSE
