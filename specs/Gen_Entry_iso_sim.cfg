SPECIFICATION MCSpec
CONSTANTS
  GenMode = TRUE
  GenDepth = 16
  MaxT = 60000
  MaxEnters = 20
  MaxOpen = 5
  MaxN = 2
  IsoSets <- IsoSetsSmall
  HotSets <- HotNone
  Inbounds <- BothB
  Ress <- R12
  ArgC <- NoArgs
  AttC <- NoArgs
  SysSets <- SysNone
  LoadVals <- NoVals
  DTMode = "full"
CONSTRAINT GenBound
CHECK_DEADLOCK FALSE
INVARIANT PrintBehaviour
