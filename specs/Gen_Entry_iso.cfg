SPECIFICATION MCSpec
CONSTANTS
  GenMode = TRUE
  GenDepth = 5
  MaxT = 2000
  MaxEnters = 20
  MaxOpen = 3
  MaxN = 2
  IsoSets <- IsoSetsSmall
  HotSets <- HotNone
  Inbounds <- BothB
  Ress <- R12
  ArgC <- NoArgs
  AttC <- NoArgs
  SysSets <- SysNone
  LoadVals <- NoVals
  DTMode = "mid"
CONSTRAINT GenBound
CHECK_DEADLOCK FALSE
INVARIANT PrintBehaviour
