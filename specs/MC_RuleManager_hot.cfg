SPECIFICATION MCSpec
CONSTANTS
  GenMode = FALSE
  GenDepth = 0
  Fam = "hot"
  MaxSet = 3
INVARIANT OnlyValid
INVARIANT AllRepresented
CHECK_DEADLOCK FALSE
