------------------------- MODULE MC_PropertyHandler -------------------------
EXTENDS PropertyHandler, Json, SequencesExt
CONSTANTS GenMode, GenDepth
VARIABLE hist
mcvars == <<phvars, hist>>

F(id, res, num) == [id |-> id, res |-> res, ref |-> "", rel |-> "current", calc |-> "direct", ctl |-> "reject",
                    thr |-> <<num, 1>>, warm |-> 0, cold |-> 0, maxq |-> 0, I |-> 0]
r1 == F("f1", "r1", 2)   r1b == F("f9", "r1", 2)   r2 == F("f2", "r1", 3)   r3 == F("f3", "r2", 1)   bad == F("f4", "r1", -1)
Docs == {<<r1>>, <<r1b>>, <<r1, r2>>, <<r2, r1>>, <<r1, r3>>, <<r1, bad>>, <<>>}

Events == {[e |-> "handle", kind |-> "rules", rules |-> d, t |-> now] : d \in Docs}
          \cup {[e |-> "handle", kind |-> "none", rules |-> <<>>, t |-> now], [e |-> "handle", kind |-> "bad", rules |-> <<>>, t |-> now]}

Log(ev) == hist' = (IF GenMode THEN Append(hist, ev) ELSE <<>>)
MCInit == PHInit /\ hist = <<>>
MCNext ==
    \/ /\ ~on /\ LET ev == [e |-> "reset", t |-> 0, obs |-> 0] IN PHReset(ev) /\ Log(ev)
    \/ /\ on
       /\ \E ev \in Events : \E ret \in {"true", "false", "err"} :
            \E A \in SUBSET (UNION {SeqToSet(d) : d \in Docs}) :
               Handle([ev EXCEPT !.e = "handle"] @@ [ret |-> ret], A) /\ Log(ev)
MCSpec == MCInit /\ [][MCNext]_mcvars
GenBound == Len(hist) <= GenDepth
PrintBehaviour == (GenMode /\ Len(hist) = GenDepth) => PrintT(<<"REPLAY", ToJson(hist)>>)
\* the manager never holds anything but the valid rules of the last loaded property
Sound == OnlyValid
GoalStale == ~(on /\ last.has /\ last.rules = <<r1>> /\ active["flow"] = {})      \* the deviation is reachable
=============================================================================
