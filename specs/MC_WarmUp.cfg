SPECIFICATION MCSpec
CONSTANTS
  Q = 100
  C = 3
  P = 2
  Tau = 1
  MaxHalf = 16
  GenMode = FALSE
  GenDepth = 0
CONSTRAINT Bound
INVARIANT Envelope
CHECK_DEADLOCK FALSE
