----------------------------- MODULE Trace_Codec -----------------------------
EXTENDS Codec, Json, IOUtils
Rec == ndJsonDeserialize(IOEnv.TRACE)
VARIABLE l
TraceInit == l = 1
TraceNext == l <= Len(Rec) /\ l' = l + 1 /\ CaseOK2(Rec[l])
TraceSpec == TraceInit /\ [][TraceNext]_l
TraceAccepted ==
    LET d == TLCGet("stats").diameter IN
    IF d - 1 = Len(Rec) THEN TRUE
    ELSE /\ PrintT(<<"TRACE_REJECTED", d, Len(Rec), ToJson(Rec[d])>>)
         /\ FALSE
=============================================================================
