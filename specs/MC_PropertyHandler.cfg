SPECIFICATION MCSpec
CONSTANTS
  GenMode = FALSE
  GenDepth = 0
INVARIANT Sound
CHECK_DEADLOCK FALSE
