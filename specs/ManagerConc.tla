----------------------------- MODULE ManagerConc -----------------------------
(***************************************************************************)
(* C15 — concurrent rule updates and entries never deadlock, panic or      *)
(* poison a manager.  Tier A on one scheduled execution: every call of     *)
(* every thread returned normally, the execution did not end in a          *)
(* dead-lock, and afterwards every rule manager still answers queries and  *)
(* accepts updates and an entry can still be built (health probe).         *)
(***************************************************************************)
EXTENDS Integers, Sequences, TLC

VARIABLES on, ncalls
mcvars == <<on, ncalls>>

Begin(ev) == ev.e = "begin" /\ on' = TRUE /\ ncalls' = 0
Call(ev) == ev.e = "call" /\ on /\ ev.r = "ok" /\ ncalls' = ncalls + 1 /\ UNCHANGED on
End(ev) == ev.e = "end" /\ on /\ ev.health = "ok" /\ on' = FALSE /\ UNCHANGED ncalls
\* a "deadlock" event has no step: the execution is not a behaviour
Step(ev) == Begin(ev) \/ Call(ev) \/ End(ev)
MCInit == on = FALSE /\ ncalls = 0
=============================================================================
