----------------------------- MODULE HotspotQps -----------------------------
(***************************************************************************)
(* C06 — hotspot QPS limiting is a per-parameter-value token bucket        *)
(* without cross-talk; C11 (hotspot part) — a reload keeps the buckets of  *)
(* unchanged rules.                                                        *)
(*                                                                         *)
(* Reference semantics (the one the property names): per rule and value a  *)
(* bucket of capacity q_v + b, full at the first request, refilled lazily  *)
(* - only when the gap since the last refill exceeds the duration d - by   *)
(* floor(gap * q_v / d) tokens, capped.  q_v is the per-value override or  *)
(* the rule's threshold.  A request takes n tokens or is rejected and then *)
(* leaves the bucket untouched.                                            *)
(* Several rules of one resource are consulted in an order fixed at load   *)
(* time (unspecified: `order` is chosen nondeterministically) and the      *)
(* first rejection ends the consultation.                                  *)
(***************************************************************************)
EXTENDS Integers, Sequences, FiniteSets, FiniteSetsExt, TLC, TokenBucket

NoVal == "<none>"

VARIABLES
    on, now,
    hot,      \* set of QPS/reject rules [id, res, idx, key, thr, burst, dur, spec]
    order,    \* resource -> sequence of rule ids (consultation order)
    bk,       \* rule id -> (value -> [tokens, last, first, admitted])
    foreign

hvars == <<on, now, hot, order, bk, foreign>>

SeqToSet(s) == {s[i] : i \in 1..Len(s)}
Perms(S) == {p \in [1..Cardinality(S) -> S] : \A a \in S : \E i \in 1..Cardinality(S) : p[i] = a}

Extract(r, args, att) ==
    LET k == r.key IN
    IF k # "" /\ k \in DOMAIN att THEN att[k]
    ELSE IF Len(args) = 0 THEN NoVal
    ELSE LET i == IF r.idx < 0 THEN r.idx + Len(args) ELSE r.idx IN
         IF i < 0 \/ i >= Len(args) THEN NoVal ELSE args[i + 1]

Valid(r) == r.res # "" /\ r.dur > 0 /\ ~(r.idx > 0 /\ r.key # "")
Rule(id) == CHOOSE r \in hot : r.id = id
Q(r, v) == IF v \in DOMAIN r.spec THEN r.spec[v] ELSE r.thr
Cap(r, v) == Q(r, v) + r.burst
D(r) == r.dur * 1000

\* one rule deciding one request of n tokens for value v at time t, bucket state b (or "new")
\* result: [ok, b, touched]; the arithmetic is TokenBucket!DecideQ (also proved inductively, TokenBucketInd)
Decide(r, v, n, t, seen, b) == DecideQ(Q(r, v), Cap(r, v), D(r), n, t, seen, b)

Args(ev) == IF "args" \in DOMAIN ev THEN ev.args ELSE <<>>
Att(ev)  == IF "att" \in DOMAIN ev THEN ev.att ELSE <<>>
OrderOf(res) == IF res \in DOMAIN order THEN order[res] ELSE <<>>

\* The buckets of a rule live in caches of CapOf(r) entries with least-recently-used replacement (the code:
\* two LRU caches per rule, time and tokens, which sequential traffic touches in the same order).  Every
\* decision that gets as far as the bucket - admitted or rejected for want of tokens - makes the value the
\* most recent one; a request rejected because q = 0 or n > q + burst does not touch the caches.  A new
\* value arriving at a full cache evicts the least recent one, whose next request then finds a fresh, full
\* bucket.  `used` = rank in the recency order (1 = least recent).  While the number of distinct values
\* stays within the capacity - the domain of the listed property - nothing is ever evicted.
CapOf(r) == IF r.cap > 0 THEN r.cap ELSE IF 4000 * r.dur < 20000 THEN 4000 * r.dur ELSE 20000
Ranked(f) == [x \in DOMAIN f |-> ("used" :> Cardinality({y \in DOMAIN f : f[y].used <= f[x].used})) @@ f[x]]
Oldest(f) == CHOOSE x \in DOMAIN f : \A y \in DOMAIN f : f[x].used <= f[y].used
Touch(r, f, v, b) ==
    LET room == IF v \notin DOMAIN f /\ Cardinality(DOMAIN f) >= CapOf(r)
                THEN [x \in DOMAIN f \ {Oldest(f)} |-> f[x]] ELSE f
    IN  Ranked((v :> (("used" :> Cardinality(DOMAIN f) + 2) @@ b)) @@ room)
Evicted(r, f, v) == IF v \notin DOMAIN f /\ Cardinality(DOMAIN f) >= CapOf(r) THEN {Oldest(f)} ELSE {}

\* consult the rules of the resource in order, starting at position i with buckets `cur`
RECURSIVE Walk(_, _, _, _)
Walk(ev, ord, i, cur) ==
    IF i > Len(ord) THEN [pass |-> TRUE, rule |-> "", bk |-> cur]
    ELSE LET r == Rule(ord[i])
             v == Extract(r, Args(ev), Att(ev))
         IN  IF v = NoVal THEN Walk(ev, ord, i + 1, cur)
             ELSE LET seen == v \in DOMAIN cur[r.id]
                      reaches == ~(Q(r, v) = 0 \/ ev.n > Cap(r, v))
                      d == Decide(r, v, ev.n, ev.t, seen, IF seen THEN cur[r.id][v] ELSE <<>>)
                      nxt == IF reaches THEN [cur EXCEPT ![r.id] = Touch(r, @, v, d.b)] ELSE cur
                  IN  IF d.ok
                      THEN Walk(ev, ord, i + 1, nxt)
                      ELSE [pass |-> FALSE, rule |-> r.id, bk |-> nxt]

Verdict(ev) == Walk(ev, OrderOf(ev.res), 1, bk)

(* ------------------------------ events -------------------------------- *)
Reset(ev) ==
    /\ ev.e = "reset"
    /\ on' = TRUE /\ now' = ev.t /\ hot' = {} /\ order' = <<>> /\ bk' = <<>> /\ foreign' = FALSE

SameRule(a, b) ==
    /\ a.res = b.res /\ a.idx = b.idx /\ a.key = b.key /\ a.thr = b.thr /\ a.dur = b.dur
    /\ a.spec = b.spec /\ a.burst = b.burst /\ a.cap = b.cap
StatReusable(a, b) == a.res = b.res /\ a.cap = b.cap /\ a.dur = b.dur

\* buckets a (re)loaded rule may continue with: those of an equal old rule; for a changed rule
\* those of an old rule with the same duration/capacity (handed over by the code) or none
\* `same`: the rules of r's resource after the load are, as a set under rule equality, the ones before it
\* (the case the property speaks about).  If another rule of the resource changed in the same call the
\* code may hand an old rule's statistics to the changed one and rebuild the unchanged one: either way.
BucketChoices(r, same) ==
    LET eq == {o \in hot : SameRule(o, r)}
        ru == {o \in hot : StatReusable(o, r)}
    IN  IF eq # {} /\ same THEN {bk[o.id] : o \in eq} ELSE {<<>>} \cup {bk[o.id] : o \in ru}
SameSets(A, B) == (\A a \in A : \E b \in B : SameRule(a, b)) /\ (\A b \in B : \E a \in A : SameRule(a, b))

LoadHot(ev) ==
    /\ ev.e = "load" /\ ev.fam = "hot" /\ ev.op \in {"all", "res"}
    /\ on /\ ev.t >= now /\ now' = ev.t
    /\ LET scope(r) == ev.op = "all" \/ r.res = ev.res
           new == {r \in SeqToSet(ev.rules) : Valid(r) /\ r.metric = "qps" /\ r.ctl = "reject" /\ scope(r)}
           keep == {r \in hot : ~scope(r)}
           all == new \cup keep
           ress == {r.res : r \in all}
       IN
       /\ hot' = all
       /\ foreign' = (foreign \/ \E r \in SeqToSet(ev.rules) : ~(r.metric = "qps" /\ r.ctl = "reject"))
       /\ order' \in [ress -> UNION {Perms({r.id : r \in {x \in all : x.res = rs}}) : rs \in ress}]
       /\ \A rs \in ress : /\ SeqToSet(order'[rs]) = {r.id : r \in {x \in all : x.res = rs}}
                           /\ Len(order'[rs]) = Cardinality({x \in all : x.res = rs})
       /\ LET same(r) == SameSets({o \in hot : o.res = r.res}, {x \in all : x.res = r.res}) IN
          /\ bk' \in [{r.id : r \in all} -> UNION ({BucketChoices(r, same(r)) : r \in new} \cup {{bk[r.id]} : r \in keep})]
          /\ \A r \in new : bk'[r.id] \in BucketChoices(r, same(r))
       /\ \A r \in keep : bk'[r.id] = bk[r.id]
    /\ UNCHANGED on

LoadOther(ev) ==
    /\ ev.e = "load" /\ ev.fam # "hot"
    /\ on /\ ev.t >= now /\ now' = ev.t
    /\ foreign' = TRUE
    /\ UNCHANGED <<on, hot, order, bk>>

Enter(ev) ==
    /\ ev.e = "enter" /\ on /\ ev.t >= now /\ now' = ev.t
    /\ bk' = Verdict(ev).bk
    /\ UNCHANGED <<on, hot, order, foreign>>

Other(ev) ==
    /\ ev.e \in {"exit", "adv"} /\ on /\ ev.t >= now /\ now' = ev.t
    /\ UNCHANGED <<on, hot, order, bk, foreign>>

HotInit == on = FALSE /\ now = 0 /\ hot = {} /\ order = <<>> /\ bk = <<>> /\ foreign = FALSE

(* ------------------------------ invariants ---------------------------- *)
\* tokens admitted for a value since its first request never exceed q + b + q*(t - first)/d
\* (stated for rules whose parameters were in force for the whole life of the bucket)
Bound == \A r \in hot : \A v \in DOMAIN bk[r.id] :
            LET b == bk[r.id][v] IN
            (b.admitted - Cap(r, v)) * D(r) <= Q(r, v) * (now - b.first)
TokensSane == \A r \in hot : \A v \in DOMAIN bk[r.id] :
            bk[r.id][v].tokens >= 0 /\ bk[r.id][v].tokens <= Cap(r, v)
=============================================================================
