-------------------------- MODULE Trace_FlowReject --------------------------
(* Trace validation for FlowReject (C01, and the flow part of C11). *)
EXTENDS FlowReject, Json, IOUtils

Rec == ndJsonDeserialize(IOEnv.TRACE)

VARIABLE l
tvars == <<fvars, l>>

Has(ev, f) == f \in DOMAIN ev

\* judged in the state BEFORE the event (the decision is taken on what was admitted so far)
EvOK(ev) ==
    CASE ev.e = "reset" -> ev.ok
      [] ev.e = "load"  -> Has(ev, "ret")                \* returned normally
      [] ev.e = "enter" ->
            LET d == Decision(ev.res, ev.n, ev.t) IN
            IF d.pass THEN ev.r = "pass"
            ELSE /\ ev.r = "block" /\ ev.bt = "flow"
                 \* the reported rule is one that does not fit: named by its id, or (an equal rule reloaded
                 \* under another id keeps its controller and its first id) by the description it was built from
                 /\ \/ ev.rule \in d.culprits
                    \/ Has(ev, "rule_rec") /\ \E c \in d.bad : SameRule(ev.rule_rec, c)
      [] ev.e = "exit"  -> ~Has(ev, "panic")
      [] ev.e = "adv"   -> TRUE
      [] ev.e = "sysmem" -> TRUE
      [] OTHER -> FALSE

TraceInit == FlowInit /\ l = 1
TraceNext ==
    /\ l <= Len(Rec)
    /\ l' = l + 1
    /\ EvOK(Rec[l])
    /\ Step(Rec[l])
TraceSpec == TraceInit /\ [][TraceNext]_tvars

TraceAccepted ==
    LET d == TLCGet("stats").diameter IN
    IF d - 1 = Len(Rec) THEN TRUE
    ELSE /\ PrintT(<<"TRACE_REJECTED", d, Len(Rec), ToJson(Rec[d])>>)
         /\ FALSE
=============================================================================
