----------------------------- MODULE MC_Throttle -----------------------------
EXTENDS Throttle, Json

CONSTANTS GenMode, GenDepth, MaxT, MaxN, FlowSets, HotSets, DTSel

VARIABLES hist, cnt
mcvars == <<tvars, hist, cnt>>

FR(num, den, iv, maxq) == [id |-> "f1", res |-> "r1", calc |-> "direct", ctl |-> "throttling", thr |-> <<num, den>>, I |-> iv, maxq |-> maxq]
HR(thr, dur, maxq, spec) ==
    [id |-> "h1", res |-> "r1", metric |-> "qps", ctl |-> "throttling", idx |-> 0, key |-> "", thr |-> thr,
     dur |-> dur, maxq |-> maxq, spec |-> spec, burst |-> 0, cap |-> 0]

FlowAll == { <<>> } \cup { <<FR(num, den, iv, mq)>> : num \in {0, 1, 2, 3, 5}, den \in {1, 2}, iv \in {0, 200}, mq \in {0, 100, 500, 1000} }
FlowSmall == { <<FR(2, 1, 0, 500)>>, <<FR(3, 1, 0, 1000)>>, <<FR(5, 2, 200, 100)>> }
FlowNone == { <<>> }
\* two throttling rules on one resource (the caller is held by one after the other, in either order)
FlowTwo == { <<FR(2, 1, 0, 1000), [FR(1, 1, 0, 2000) EXCEPT !.id = "f2"]>>, <<FR(3, 1, 0, 500), [FR(2, 1, 0, 500) EXCEPT !.id = "f2"]>> }
HotAll == { <<>> } \cup { <<HR(q, d, mq, sp)>> : q \in {0, 1, 2, 3}, d \in {1, 2}, mq \in {0, 500, 1000}, sp \in {<<>>, ("b" :> 1)} }
HotSmall == { <<HR(2, 1, 1000, <<>>)>>, <<HR(3, 1, 500, ("b" :> 1))>>, <<HR(1, 2, 0, <<>>)>> }
HotNone == { <<>> }
\* beyond the listed property: more distinct values than the cache holds (least-recently-used replacement)
HotLru == { <<[HR(q, 1, mq, <<>>) EXCEPT !.cap = c]>> : q \in {1, 2}, mq \in {0, 1000}, c \in {1, 2} }
ArgLru == { <<"a">>, <<"b">>, <<"c">> }

ArgSets == IF DTSel = "lru" THEN ArgLru ELSE { <<"a">>, <<"b">> }
\* arrivals: right away, 1 ms later, and a few spacings that land before / on / after scheduled slots
DTs == IF DTSel = "min" THEN {0, 100, 334, 500} ELSE IF DTSel = "lru" THEN {0, 100, 500, 1000} ELSE {0, 1, 100, 333, 334, 500, 1000, 2500}

EnterEvents ==
    {[e |-> "enter", id |-> Len(hist), res |-> "r1", n |-> n, args |-> a,
      t |-> Add(now, Ms(dt))[1], tn |-> Add(now, Ms(dt))[2]] : n \in 0..MaxN, a \in ArgSets, dt \in DTs}

Log(ev) == hist' = (IF GenMode THEN Append(hist, ev) ELSE <<>>)

MCInit == ThrottleInit /\ hist = <<>> /\ cnt = 0
MCNext ==
    \/ /\ ~on
       /\ LET ev == [e |-> "reset", t |-> 0, obs |-> 0] IN Reset(ev) /\ Log(ev) /\ cnt' = 1
    \/ /\ on /\ cnt = 1
       /\ \E rs \in FlowSets : LET ev == [e |-> "load", fam |-> "flow", op |-> "all", t |-> now[1], tn |-> now[2], rules |-> rs] IN
             LoadFlow(ev) /\ Log(ev) /\ cnt' = 2
    \/ /\ on /\ cnt = 2
       /\ \E rs \in HotSets : LET ev == [e |-> "load", fam |-> "hot", op |-> "all", t |-> now[1], tn |-> now[2], rules |-> rs] IN
             LoadHot(ev, FALSE) /\ Log(ev) /\ cnt' = 3
    \/ /\ on /\ cnt = 3
       /\ \E ev \in EnterEvents : \E fo \in FlowStage(ev) : \E ho \in HotStage(ev, Add(Tm(ev), fo.wait)) :
             Enter(ev, fo, ho) /\ Log(ev) /\ cnt' = 3
MCSpec == MCInit /\ [][MCNext]_mcvars

StateBound == now[1] <= MaxT
GenBound == Len(hist) <= GenDepth /\ now[1] <= MaxT
PrintBehaviour == (GenMode /\ Len(hist) = GenDepth) => PrintT(<<"REPLAY", ToJson(hist)>>)

GoalQueued == ~(slept # Zero)
GoalHotQueued == ~(\E id \in DOMAIN hlast : \E v \in Vals(hlast[id]) : hlast[id][v] > now[1] - 1 /\ slept[1] >= 500)
WithinCap == \A res \in DOMAIN hrule : LET r == hrule[res] IN
                /\ Cardinality(Vals(hlast[r.id])) <= CapOf(r)
                /\ {Order(hlast[r.id])[i] : i \in 1..Len(Order(hlast[r.id]))} = Vals(hlast[r.id])
                /\ Len(Order(hlast[r.id])) = Cardinality(Vals(hlast[r.id]))
\* a value was evicted and came back: it is in the cache with a schedule = now although it was seen before
GoalLruFull == ~(\E id \in DOMAIN hlast : Cardinality(Vals(hlast[id])) = 2 /\ Order(hlast[id]) = <<"c", "a">> /\ now[1] >= 1000)
GoalSubMs == ~(now[2] # 0)
=============================================================================
