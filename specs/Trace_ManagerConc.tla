-------------------------- MODULE Trace_ManagerConc --------------------------
EXTENDS ManagerConc, Json, IOUtils
Rec == ndJsonDeserialize(IOEnv.TRACE)
VARIABLE l
tvars == <<mcvars, l>>
TraceInit == MCInit /\ l = 1
TraceNext == /\ l <= Len(Rec) /\ l' = l + 1 /\ Step(Rec[l])
TraceSpec == TraceInit /\ [][TraceNext]_tvars
TraceAccepted ==
    LET d == TLCGet("stats").diameter IN
    IF d - 1 = Len(Rec) THEN TRUE
    ELSE /\ PrintT(<<"TRACE_REJECTED", d, Len(Rec), ToJson(Rec[d])>>)
         /\ FALSE
=============================================================================
