SPECIFICATION Spec
CONSTANTS
  MaxSlots = 2
  Orders = {0, 1}
  GenMode = FALSE
INVARIANT RefAccepted
CHECK_DEADLOCK FALSE
