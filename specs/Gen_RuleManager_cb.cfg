SPECIFICATION MCSpec
CONSTANTS
  GenMode = TRUE
  GenDepth = 3
  Fam = "cb"
  MaxSet = 2
CHECK_DEADLOCK FALSE
CONSTRAINT GenBound
INVARIANT PrintBehaviour
