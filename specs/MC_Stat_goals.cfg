SPECIFICATION MCSpec
CONSTANTS
  Geos <- GeosGen
  MCKinds <- KindsPR
  MaxC = 1
  MaxTotal = 3
  MaxSpan = 3
  GenMode = FALSE
  GenDepth = 0
CONSTRAINT StateBound
CHECK_DEADLOCK FALSE
