SPECIFICATION TraceSpec
INVARIANT OnlyValid
INVARIANT AllRepresented
POSTCONDITION TraceAccepted
CHECK_DEADLOCK FALSE
