----------------------------- MODULE Trace_Tower -----------------------------
EXTENDS Tower, Json, IOUtils
Rec == ndJsonDeserialize(IOEnv.TRACE)
VARIABLE l
TraceInit == TowerInit /\ l = 1
TraceNext ==
    /\ l <= Len(Rec) /\ l' = l + 1
    /\ LET ev == Rec[l] IN
       CASE ev.e = "reset" -> ev.ok /\ Reset(ev)
         [] ev.e = "req" ->
              \E leak \in BOOLEAN :
                 /\ Req(ev, leak)
                 /\ ev.called = last'.called                 \* inner service called exactly once iff admitted
                 /\ ev.result = last'.result                 \* response / error / fallback as prescribed
                 /\ ev.conc = inflight'                      \* the admission is released when the call finished
                 /\ ev.inb = (IF role = "server" THEN inflight' ELSE 0)
         [] ev.e = "hold" ->
              /\ Hold(ev) /\ ev.called = last'.called /\ ev.result = last'.result
              /\ ev.conc = inflight' /\ ev.inb = (IF role = "server" THEN inflight' ELSE 0)
         [] ev.e = "resume" ->
              /\ Resume(ev) /\ ev.called = 0 /\ ev.result = last'.result
              /\ ev.conc = inflight' /\ ev.inb = (IF role = "server" THEN inflight' ELSE 0)
         [] ev.e = "adv" -> Adv(ev)
         [] OTHER -> FALSE
TraceSpec == TraceInit /\ [][TraceNext]_<<tvars, l>>
TraceAccepted ==
    LET d == TLCGet("stats").diameter IN
    IF d - 1 = Len(Rec) THEN TRUE
    ELSE /\ PrintT(<<"TRACE_REJECTED", d, Len(Rec), ToJson(Rec[d])>>)
         /\ FALSE
=============================================================================
