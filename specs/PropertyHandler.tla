--------------------------- MODULE PropertyHandler ---------------------------
(***************************************************************************)
(* The dynamic-datasource path (growth beyond the listed properties):      *)
(* DefaultPropertyHandler::handle(document) = convert (the JSON rule       *)
(* parser), compare with the last converted property, update the rule      *)
(* manager.  Composed with RuleManager.tla, whose load-all operation is    *)
(* the updater.                                                            *)
(*   - a malformed document is an error and changes nothing;               *)
(*   - a document whose rules are, element by element and in order, equal  *)
(*     (rule equality: ids do not count) to the last converted ones is     *)
(*     "consistent": nothing is updated, the answer is false;              *)
(*   - otherwise the rules become the last property and are loaded;        *)
(*   - a missing document (None) loads the empty rule list and - as the    *)
(*     code has it - does NOT touch the remembered property, so the same   *)
(*     document arriving again afterwards is considered consistent and is  *)
(*     not loaded (modelled as it is, named here as a deviation from what  *)
(*     one would expect).                                                  *)
(***************************************************************************)
EXTENDS RuleManager

VARIABLE last        \* [has |-> a property was converted before, rules |-> the rules last converted]
phvars == <<rvars, last>>

SameSeq(a, b) == Len(a) = Len(b) /\ \A i \in 1..Len(a) : Eq(a[i], b[i])
LoadEv(ev, rs) == [e |-> "load", fam |-> "flow", op |-> "all", t |-> ev.t, rules |-> rs]

\* A: the active set reported afterwards (chosen among the allowed ones by the trace / the model)
Handle(ev, A) ==
    /\ ev.e = "handle" /\ on
    /\ CASE ev.kind = "bad" ->
              /\ ev.ret = "err" /\ A = active["flow"]
              /\ UNCHANGED phvars
         [] ev.kind = "none" ->
              /\ ev.ret \in OpSpec(LoadEv(ev, <<>>)).rets
              /\ Op(LoadEv(ev, <<>>), A) /\ last' = last
         [] OTHER ->
              IF last.has /\ SameSeq(last.rules, ev.rules)
              THEN /\ ev.ret = "false" /\ A = active["flow"] /\ UNCHANGED phvars
              ELSE /\ ev.ret \in OpSpec(LoadEv(ev, ev.rules)).rets
                   /\ Op(LoadEv(ev, ev.rules), A) /\ last' = [has |-> TRUE, rules |-> ev.rules]

PHReset(ev) == Reset(ev) /\ last' = [has |-> FALSE, rules |-> <<>>]
PHInit == RMInit /\ last = [has |-> FALSE, rules |-> <<>>]
=============================================================================
