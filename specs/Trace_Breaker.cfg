SPECIFICATION TraceSpec
INVARIANT OneProbe
INVARIANT LogIsPath
INVARIANT ClearOnClose
POSTCONDITION TraceAccepted
CHECK_DEADLOCK FALSE
