---------------------------- MODULE Trace_Breaker ----------------------------
EXTENDS Breaker, Json, IOUtils

Rec == ndJsonDeserialize(IOEnv.TRACE)
VARIABLE l
trvars == <<bvars, l>>
Has(ev, f) == f \in DOMAIN ev

\* the order the manager reports for the resources (re)loaded by this event
NewRes(ev) == {r.res : r \in {x \in SeqToSet(ev.rules) : Valid(x) /\ (ev.op = "all" \/ x.res = ev.res)}}
ObsOrd(ev) == [rs \in NewRes(ev) |-> [i \in 1..Len(ev.cb[rs]) |-> ev.cb[rs][i].rule]]

\* observed breaker states / retry instants / listener records, judged in the state after the event
ObsOK(ev) ==
    /\ \A rs \in DOMAIN order' :
          /\ Has(ev, "cb") /\ rs \in DOMAIN ev.cb /\ Len(ev.cb[rs]) = Len(order'[rs])
          /\ \A i \in 1..Len(order'[rs]) :
                LET o == ev.cb[rs][i]
                    id == order'[rs][i]
                IN  /\ o.rule = id /\ o.st = st'[id]
                    /\ st'[id] = "open" => o.retry = retryAt'[id]
    /\ Has(ev, "cb") => \A rs \in DOMAIN ev.cb : rs \in DOMAIN order'
    /\ ev.lis = log'

TraceInit == BreakerInit /\ l = 1
TraceNext ==
    /\ l <= Len(Rec)
    /\ l' = l + 1
    /\ LET ev == Rec[l] IN
       CASE ev.e = "reset" -> ev.ok /\ Reset(ev)
         [] ev.e = "load" /\ ev.fam = "cb" ->
              /\ Has(ev, "ret")
              /\ NewRes(ev) # {} => (Has(ev, "cb") /\ \A rs \in NewRes(ev) : rs \in DOMAIN ev.cb)
              /\ LoadCb(ev, ObsOrd(ev)) /\ ObsOK(ev)
         [] ev.e = "load" /\ ev.fam # "cb" -> Has(ev, "ret") /\ LoadOther(ev) /\ ObsOK(ev)
         [] ev.e = "enter" ->
              \E ext \in BOOLEAN :
                 /\ IF EnterBlocked(ev, ext)
                    THEN /\ ev.r = "block"
                         /\ IF EnterByBreaker(ev) THEN ev.bt = "cb" ELSE ev.bt # "cb"
                    ELSE ev.r = "pass"
                 /\ Enter(ev, ext) /\ ObsOK(ev)
         [] ev.e = "exit"  -> /\ ~Has(ev, "panic")
                              /\ \E stale \in SUBSET {r.id : r \in brs} : Exit(ev, stale) /\ ObsOK(ev)
         [] ev.e = "adv"   -> Adv(ev) /\ ObsOK(ev)
         [] OTHER -> FALSE
TraceSpec == TraceInit /\ [][TraceNext]_trvars

TraceAccepted ==
    LET d == TLCGet("stats").diameter IN
    IF d - 1 = Len(Rec) THEN TRUE
    ELSE /\ PrintT(<<"TRACE_REJECTED", d, Len(Rec), ToJson(Rec[d])>>)
         /\ FALSE
=============================================================================
