---------------------------- MODULE Trace_Breaker ----------------------------
EXTENDS Breaker, Json, IOUtils

Rec == ndJsonDeserialize(IOEnv.TRACE)
VARIABLE l
trvars == <<bvars, l>>
Has(ev, f) == f \in DOMAIN ev

\* the order the manager reports for the resources (re)loaded by this event
NewRes(ev) == {r.res : r \in {x \in SeqToSet(ev.rules) : Valid(x) /\ (ev.op = "all" \/ x.res = ev.res)}}
\* An observed breaker / listener record names the specification's rule `id` by that id, or - an equal
\* rule reloaded under another id keeps its breaker and the id it was first given - by the description
\* the rule object it is bound to was built from.
Names(o, id, rs) == o.rule = id \/ (Has(o, "rec") /\ \E r \in rs : r.id = id /\ SameRule(o.rec, r))
NewRules(ev) == {x \in SeqToSet(ev.rules) : Valid(x) /\ (ev.op = "all" \/ x.res = ev.res)}
ObsOrd(ev) == [rs \in NewRes(ev) |-> [i \in 1..Len(ev.cb[rs]) |->
                 LET c == {r.id : r \in {x \in NewRules(ev) : x.res = rs /\ Names(ev.cb[rs][i], x.id, NewRules(ev))}}
                 IN  IF c = {} THEN "<nomatch>" ELSE CHOOSE x \in c : TRUE]]

\* observed breaker states / retry instants / listener records, judged in the state after the event
ObsOK(ev) ==
    /\ \A rs \in DOMAIN order' :
          /\ Has(ev, "cb") /\ rs \in DOMAIN ev.cb /\ Len(ev.cb[rs]) = Len(order'[rs])
          /\ \A i \in 1..Len(order'[rs]) :
                LET o == ev.cb[rs][i]
                    id == order'[rs][i]
                IN  /\ Names(o, id, brs') /\ o.st = st'[id]
                    /\ st'[id] = "open" => o.retry = retryAt'[id]
    /\ Has(ev, "cb") => \A rs \in DOMAIN ev.cb : rs \in DOMAIN order'
    /\ Len(ev.lis) = Len(log')
    /\ \A i \in 1..Len(log') : /\ ev.lis[i].to = log'[i].to /\ ev.lis[i].prev = log'[i].prev
                                /\ Names(ev.lis[i], log'[i].rule, brs')

TraceInit == BreakerInit /\ l = 1
TraceNext ==
    /\ l <= Len(Rec)
    /\ l' = l + 1
    /\ LET ev == Rec[l] IN
       CASE ev.e = "reset" -> ev.ok /\ Reset(ev)
         [] ev.e = "load" /\ ev.fam = "cb" ->
              /\ Has(ev, "ret")
              /\ NewRes(ev) # {} => (Has(ev, "cb") /\ \A rs \in NewRes(ev) : rs \in DOMAIN ev.cb)
              /\ LoadCb(ev, ObsOrd(ev)) /\ ObsOK(ev)
         [] ev.e = "load" /\ ev.fam # "cb" -> Has(ev, "ret") /\ LoadOther(ev) /\ ObsOK(ev)
         [] ev.e = "enter" ->
              \E ext \in BOOLEAN :
                 /\ IF EnterBlocked(ev, ext)
                    THEN /\ ev.r = "block"
                         /\ IF EnterByBreaker(ev) THEN ev.bt = "cb" ELSE ev.bt # "cb"
                    ELSE ev.r = "pass"
                 /\ Enter(ev, ext) /\ ObsOK(ev)
         [] ev.e = "exit"  -> /\ ~Has(ev, "panic")
                              /\ \E stale \in SUBSET {r.id : r \in brs} : Exit(ev, stale) /\ ObsOK(ev)
         [] ev.e = "adv"   -> Adv(ev) /\ ObsOK(ev)
         [] OTHER -> FALSE
TraceSpec == TraceInit /\ [][TraceNext]_trvars

TraceAccepted ==
    LET d == TLCGet("stats").diameter IN
    IF d - 1 = Len(Rec) THEN TRUE
    ELSE /\ PrintT(<<"TRACE_REJECTED", d, Len(Rec), ToJson(Rec[d])>>)
         /\ FALSE
=============================================================================
