SPECIFICATION MCSpec
CONSTANTS
  GenMode = FALSE
  GenDepth = 0
  WithDrops = TRUE
INVARIANT CalledIffAdmitted
INVARIANT NeverOver
CHECK_DEADLOCK FALSE
