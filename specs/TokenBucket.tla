---------------------------- MODULE TokenBucket ----------------------------
(***************************************************************************)
(* The decision of one hotspot QPS / reject bucket, over integers only.    *)
(* `HotspotQps.tla` (C06, C11) delegates to `DecideQ`, so the operator TLC  *)
(* binds to the code by trace validation is the very one for which         *)
(* `apalache/TokenBucketInd.tla` discharges the bound of C06 inductively,  *)
(* for unbounded time, batch counts and histories.                         *)
(*                                                                         *)
(* q: tokens per window of d ms for this value (override or threshold),    *)
(* cap = q + burst, n: batch count, t: now (ms), seen: the value has a     *)
(* bucket, b: that bucket.                                                 *)
(***************************************************************************)
EXTENDS Integers

\* @typeAlias: bucket = {tokens: Int, last: Int, first: Int, admitted: Int};
\* @typeAlias: verdict = {ok: Bool, touched: Bool, b: $bucket};
TokenBucket_aliases == TRUE

\* @type: (Int, Int, Int, Int, Int, Bool, $bucket) => $verdict;
DecideQ(q, cap, d, n, t, seen, b) ==
    IF q = 0 \/ n > cap THEN [ok |-> FALSE, b |-> b, touched |-> FALSE]
    ELSE IF ~seen
    THEN [ok |-> TRUE, touched |-> TRUE,
          b |-> [tokens |-> cap - n, last |-> t, first |-> t, admitted |-> n]]
    ELSE LET gap == t - b.last IN
         IF gap > d
         THEN LET add == (gap * q) \div d
                  new == IF add + b.tokens > cap THEN cap - n ELSE add + b.tokens - n
              IN  IF new < 0 THEN [ok |-> FALSE, b |-> b, touched |-> FALSE]
                  ELSE [ok |-> TRUE, touched |-> TRUE,
                        b |-> [b EXCEPT !.tokens = new, !.last = t, !.admitted = @ + n]]
         ELSE IF b.tokens >= n
              THEN [ok |-> TRUE, touched |-> TRUE, b |-> [b EXCEPT !.tokens = @ - n, !.admitted = @ + n]]
              ELSE [ok |-> FALSE, b |-> b, touched |-> FALSE]
=============================================================================
