--------------------------- MODULE Trace_NodeStore ---------------------------
(* Trace validation for NodeStore (C14): calls of one scheduled execution in completion order, then the
   readings taken at quiescence. *)
EXTENDS NodeStore, Json, IOUtils, TLC

Rec == ndJsonDeserialize(IOEnv.TRACE)
VARIABLE l
tvars == <<nvars, l>>

TraceInit == NSInit /\ l = 1
TraceNext == /\ l <= Len(Rec) /\ l' = l + 1 /\ Step(Rec[l])
TraceSpec == TraceInit /\ [][TraceNext]_tvars

TraceAccepted ==
    LET d == TLCGet("stats").diameter IN
    IF d - 1 = Len(Rec) THEN TRUE
    ELSE /\ PrintT(<<"TRACE_REJECTED", d, Len(Rec), ToJson(Rec[d])>>)
         /\ FALSE
=============================================================================
