SPECIFICATION MCSpec
CONSTANTS
  Geos <- GeosMC
  MCKinds <- KindsPR
  MaxC = 2
  MaxTotal = 6
  MaxSpan = 3
  GenMode = FALSE
  GenDepth = 0
CONSTRAINT StateBound
INVARIANT RingRefines
CHECK_DEADLOCK FALSE
