------------------------------ MODULE StatLib ------------------------------
(* Pure operators shared by the statistics specifications: counters of one time bucket, the   *)
(* ghost (bucket start -> counters) readings, the ring mechanism of the leap array, and the    *)
(* documented construction predicates.  No variables.                                          *)
EXTENDS Integers, Sequences, FiniteSets, FiniteSetsExt, TLC

KindSeq == <<"pass", "block", "complete", "error", "rt">>
MAXRT == 60000          \* documented "no response time recorded" reading
ZB == [pass |-> 0, block |-> 0, complete |-> 0, error |-> 0, rt |-> 0, minrt |-> MAXRT]

(* ---------------------------------------------------------------------- *)
(* Construction predicates (the documented reuse condition)                *)
(* ---------------------------------------------------------------------- *)
ArrayOK(nn, ii) == nn > 0 /\ ii % nn = 0
\* interval 0 with a positive bucket count is outside the quantifier (bucket length >= 1)
ArrayAsserted(nn, ii) == ~(nn > 0 /\ ii = 0)

WindowOK(k, J, nn, ii) ==
    /\ k > 0 /\ J > 0 /\ J % k = 0
    /\ nn > 0 /\ ii > 0 /\ ii % nn = 0
    /\ ii % J = 0
    /\ (J \div k) % (ii \div nn) = 0

(* ---------------------------------------------------------------------- *)
(* Tier A readings, parametrised by the state they are taken in            *)
(* ---------------------------------------------------------------------- *)
Start(len, t) == t - (t % len)

GBuckets(g, lo, hi) == {b \in DOMAIN g : lo <= b /\ b <= hi}
GSum(g, lo, hi, kind) == FoldSet(LAMBDA b, acc : acc + g[b][kind], 0, GBuckets(g, lo, hi))
GMin(g, lo, hi) ==
    FoldSet(LAMBDA b, acc : IF g[b].minrt < acc THEN g[b].minrt ELSE acc, MAXRT, GBuckets(g, lo, hi))

WinRange(len, t, w) == LET end == Start(len, t) IN [lo |-> end - w.J + len, hi |-> end]

\* The window (k, J) read at time t over ghost g of an array with bucket length len.
Reading(g, len, t, w) ==
    LET r == WinRange(len, t, w) IN
    [ sum   |-> [i \in 1..5 |-> GSum(g, r.lo, r.hi, KindSeq[i])],
      minrt |-> GMin(g, r.lo, r.hi) ]

\* A look-back reading (qps_previous) is owed only if window + look-back fit the ring.
PrevFits(nn, len, w) == w.J + (w.J \div w.k) <= nn * len

\* Raw array reading (all non-deprecated buckets): the n most recent bucket starts, and at an
\* exact bucket boundary possibly also the bucket that started one interval ago.
RawNarrow(g, nn, len, t, kind) == GSum(g, Start(len, t) - nn * len + len, Start(len, t), kind)
RawWide(g, nn, len, t, kind)   == GSum(g, t - nn * len, Start(len, t), kind)

(* ---------------------------------------------------------------------- *)
(* Tier B: the ring                                                        *)
(* ---------------------------------------------------------------------- *)
Idx(nn, len, t) == (t \div len) % nn

Deprecated(s, t, ii) == t > s /\ t - s > ii

Touch(rg, nn, len, t) ==
    LET i == Idx(nn, len, t)
        s == Start(len, t)
    IN  IF rg[i].start = -1 THEN [rg EXCEPT ![i].start = s]             \* empty: stamp only
        ELSE IF rg[i].start = s THEN rg                                  \* current
        ELSE IF s > rg[i].start THEN [rg EXCEPT ![i] = [start |-> s, val |-> ZB]]   \* reuse
        ELSE rg                                                          \* time went back: refused

AddTo(v, kind, c) ==
    IF kind = "rt"
    THEN [v EXCEPT !.rt = @ + c, !.minrt = IF c < @ THEN c ELSE @]
    ELSE [v EXCEPT ![kind] = @ + c]

RSlots(rg, nn, len, t, lo, hi) ==
    {i \in 0..(nn - 1) : /\ rg[i].start # -1
                         /\ ~Deprecated(rg[i].start, t, nn * len)
                         /\ lo <= rg[i].start /\ rg[i].start <= hi}
RSum(rg, nn, len, t, lo, hi, kind) ==
    FoldSet(LAMBDA i, acc : acc + rg[i].val[kind], 0, RSlots(rg, nn, len, t, lo, hi))
RMin(rg, nn, len, t, lo, hi) ==
    FoldSet(LAMBDA i, acc : IF rg[i].val.minrt < acc THEN rg[i].val.minrt ELSE acc, MAXRT,
            RSlots(rg, nn, len, t, lo, hi))

RingReading(rg, nn, len, t, w) ==
    LET r == WinRange(len, t, w) IN
    [ sum   |-> [i \in 1..5 |-> RSum(rg, nn, len, t, r.lo, r.hi, KindSeq[i])],
      minrt |-> RMin(rg, nn, len, t, r.lo, r.hi) ]

RingRaw(rg, nn, len, t, kind) ==
    FoldSet(LAMBDA i, acc : acc + rg[i].val[kind], 0,
            {i \in 0..(nn - 1) : rg[i].start # -1 /\ ~Deprecated(rg[i].start, t, nn * len)})


\* Per-second aggregation (what the metric log is fed with): the buckets with start in lo..hi grouped by
\* the calendar second they start in (off = the epoch's offset inside its second), each group summed;
\* the average response time is rt / complete (or rt when nothing completed).  Only active items count.
SecOf(b, off) == (b + off) - ((b + off) % 1000) - off
SecItems(g, lo, hi, off) ==
    LET bs == GBuckets(g, lo, hi)
        grp(s) == {b \in bs : SecOf(b, off) = s}
        tot(s, kind) == FoldSet(LAMBDA b, acc : acc + g[b][kind], 0, grp(s))
        item(s) == [ts |-> s, pass |-> tot(s, "pass"), block |-> tot(s, "block"), complete |-> tot(s, "complete"),
                    error |-> tot(s, "error"),
                    avg |-> IF tot(s, "complete") > 0 THEN tot(s, "rt") \div tot(s, "complete") ELSE tot(s, "rt")]
        all == {item(SecOf(b, off)) : b \in bs}
    IN  {it \in all : it.pass > 0 \/ it.block > 0 \/ it.complete > 0 \/ it.error > 0 \/ it.avg > 0}

\* record n of kind at time t in ghost g (bucket length len)
GAdd(g, len, t, kind, c) ==
    LET b == Start(len, t)
        old == IF b \in DOMAIN g THEN g[b] ELSE ZB
    IN  (b :> AddTo(old, kind, c)) @@ g
=============================================================================
