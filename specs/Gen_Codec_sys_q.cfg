SPECIFICATION Spec
CONSTANTS
  Fam = "sys"
  Sample = 0
INVARIANT PrintCase
CHECK_DEADLOCK FALSE
