SPECIFICATION MCSpec
CONSTANTS
  GenMode = TRUE
  GenDepth = 5
CONSTRAINT GenBound
INVARIANT PrintBehaviour
CHECK_DEADLOCK FALSE
