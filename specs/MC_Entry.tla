------------------------------ MODULE MC_Entry ------------------------------
EXTENDS Entry, Json

CONSTANTS GenMode, GenDepth, MaxT, MaxEnters, MaxOpen, MaxN, IsoSets, HotSets, Inbounds, Ress, ArgC, AttC, DTMode, SysSets, LoadVals

VARIABLES hist, cnt
mcvars == <<evars, hist, cnt>>

Cfg == [nt |-> 20, It |-> 10000, n |-> 2, I |-> 1000]

IR(id, res, thr) == [id |-> id, res |-> res, thr |-> thr]
HR(id, res, idx, key, thr, spec) ==
    [id |-> id, res |-> res, metric |-> "conc", idx |-> idx, key |-> key, thr |-> thr, spec |-> spec]

IsoSetsSmall == { <<>>, <<IR("i1", "r1", 1)>>, <<IR("i1", "r1", 2)>>, <<IR("i1", "r1", 2), IR("i2", "r1", 3)>>,
                  <<IR("i1", "r1", 1), IR("i2", "r2", 2)>> }
HotSetsSmall == { <<>>, <<HR("h1", "r1", 0, "", 1, <<>>)>>, <<HR("h1", "r1", -1, "", 2, ("b" :> 1))>>,
                  <<HR("h1", "r1", 0, "k", 1, <<>>)>>, <<HR("h1", "r1", 1, "", 2, <<>>), HR("h2", "r1", 0, "", 1, ("a" :> 2))>> }
SR(id, metric, num, den, strat) == [id |-> id, metric |-> metric, thr |-> <<num, den>>, strat |-> strat]
SysNone == { <<>> }
NoVals == {}
SysSetsSmall == { <<SR("s1", "qps", 2, 1, "none")>>, <<SR("s1", "conc", 2, 1, "none")>>, <<SR("s1", "rt", 1, 1, "none")>>,
                  <<SR("s1", "load", 1, 2, "none")>>, <<SR("s1", "load", 1, 2, "bbr")>>, <<SR("s1", "cpu", 1, 2, "bbr")>>,
                  <<SR("s1", "conc", 3, 1, "none"), SR("s2", "qps", 3, 1, "none")>> }
LoadValsSmall == { <<1, 4>>, <<1, 2>>, <<3, 4>> }
IsoOnly == { <<IR("i1", "r1", 1)>>, <<IR("i1", "r1", 2), IR("i2", "r1", 3)>> }
HotNone == { <<>> }
IsoNone == { <<>> }

ArgSets == { <<>>, <<"a">>, <<"b">>, <<"a", "b">> }
AttSets == { <<>>, ("k" :> "b") }

ResetEvents == {[e |-> "reset", t |-> 0, cfg |-> Cfg, obs |-> 2]}
Phase == Len(hist)   \* only meaningful in GenMode; in exhaustive mode the loads are guarded by cnt
DTs == IF DTMode = "min" THEN {0, cfg.It + 1}
       ELSE IF DTMode = "mid" THEN {0, Lg - (now % Lg), cfg.I}
       ELSE {0, 1, Lg - (now % Lg), Lg, cfg.I, cfg.It + 1}

EnterEvents ==
    {[e |-> "enter", id |-> cnt, res |-> res, n |-> n, in |-> inb, args |-> a, att |-> at, t |-> now + dt] :
        res \in Ress, n \in 1..MaxN, inb \in Inbounds, a \in ArgC, at \in AttC, dt \in DTs}
ExitEvents == {[e |-> "exit", id |-> i, t |-> now + dt] : i \in DOMAIN open, dt \in DTs}
AdvEvents == {[e |-> "adv", t |-> now + dt] : dt \in DTs \ {0}}

MCInit == EntryInit /\ hist = <<>> /\ cnt = 0

Log(ev) == hist' = (IF GenMode THEN Append(hist, ev) ELSE <<>>)

MCNext ==
    \/ /\ ~on /\ cnt = 0
       /\ \E ev \in ResetEvents : Reset(ev) /\ Log(ev) /\ cnt' = 1
    \/ /\ on /\ cnt = 1
       /\ \E rs \in IsoSets : LET ev == [e |-> "load", fam |-> "iso", op |-> "all", t |-> now, rules |-> rs] IN
             Load(ev) /\ Log(ev) /\ cnt' = 2
    \/ /\ on /\ cnt = 2
       /\ \E rs \in HotSets : LET ev == [e |-> "load", fam |-> "hot", op |-> "all", t |-> now, rules |-> rs] IN
             Load(ev) /\ Log(ev) /\ cnt' = 3
    \/ /\ on /\ cnt = 3 /\ SysSets # {<<>>} /\ sys = {}
       /\ \E rs \in SysSets \ {<<>>} : LET ev == [e |-> "load", fam |-> "sys", op |-> "all", t |-> now, rules |-> rs] IN
             Load(ev) /\ Log(ev) /\ cnt' = cnt
    \/ /\ on /\ cnt >= 3 /\ (GenMode \/ DOMAIN nodes = {})
       /\ \E v \in LoadVals : \E k \in {"sysload", "syscpu"} : LET ev == [e |-> k, t |-> now, v |-> v] IN
             (IF k = "sysload" THEN sload # v ELSE scpu # v) /\ Adv(ev) /\ Log(ev) /\ cnt' = cnt
    \/ /\ on /\ cnt >= 3 /\ cnt < 3 + MaxEnters /\ Cardinality(DOMAIN open) < MaxOpen
       /\ \E ev \in EnterEvents : \E o \in Outcomes(ev) : Enter(ev, o) /\ Log(ev) /\ cnt' = cnt + 1
    \/ /\ on /\ cnt >= 3
       /\ \E ev \in ExitEvents : Exit(ev) /\ Log(ev) /\ cnt' = cnt
    \/ /\ on /\ cnt >= 3
       /\ \E ev \in AdvEvents : Adv(ev) /\ Log(ev) /\ cnt' = cnt
MCSpec == MCInit /\ [][MCNext]_mcvars

StateBound == now <= MaxT
GenBound == Len(hist) <= GenDepth /\ now <= MaxT
PrintBehaviour == (GenMode /\ Len(hist) = GenDepth) => PrintT(<<"REPLAY", ToJson(hist)>>)

R12 == {"r1", "r2"}
R1 == {"r1"}
NoArgs == { <<>> }
Args3 == { <<"a">>, <<"b">>, <<"a", "b">> }
BothB == {TRUE, FALSE}
OnlyOut == {FALSE}
OnlyIn == {TRUE}
GoalSysBlocks == ~(\E r \in sys : SysTrip(r, now) /\ r.metric \in {"load", "cpu"} /\ r.strat = "bbr")
GoalSysQps == ~(\E r \in sys : SysTrip(r, now) /\ r.metric = "qps")
GoalIsoBlocks == ~(\E r \in iso : Node(r.res).conc = r.thr /\ r.thr > 0)
GoalHotCounts == ~(\E id \in DOMAIN hotc : \E v \in DOMAIN hotc[id] : hotc[id][v] >= 2)
GoalInboundMirrored == ~(INB \in DOMAIN nodes /\ nodes[INB].conc >= 1 /\ "r1" \in DOMAIN nodes /\ nodes["r1"].conc >= 2)
=============================================================================
