SPECIFICATION MCSpec
CONSTANTS
  GenMode = TRUE
  GenDepth = 16
  MaxT = 60000
  MaxEnters = 20
  MaxOpen = 5
  MaxN = 2
  IsoSets <- IsoNone
  HotSets <- HotSetsSmall
  Inbounds <- OnlyOut
  Ress <- R1
  ArgC <- Args3
  AttC <- AttSets
  SysSets <- SysNone
  LoadVals <- NoVals
  DTMode = "full"
CONSTRAINT GenBound
CHECK_DEADLOCK FALSE
INVARIANT PrintBehaviour
