SPECIFICATION MCSpec
CONSTANTS
  GenMode = FALSE
  GenDepth = 0
  Fam = "cb"
  MaxSet = 3
INVARIANT OnlyValid
INVARIANT AllRepresented
CHECK_DEADLOCK FALSE
