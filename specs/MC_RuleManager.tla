--------------------------- MODULE MC_RuleManager ---------------------------
EXTENDS RuleManager, Json, SequencesExt

CONSTANTS GenMode, GenDepth, Fam, MaxSet

VARIABLE hist
mcvars == <<rvars, hist>>

F(id, res, num) == [id |-> id, res |-> res, ref |-> "", rel |-> "current", calc |-> "direct", ctl |-> "reject",
                    thr |-> <<num, 1>>, warm |-> 0, cold |-> 0, maxq |-> 0, I |-> 0]
I(id, res, thr) == [id |-> id, res |-> res, thr |-> thr]
H(id, res, metric, thr, dur) == [id |-> id, res |-> res, metric |-> metric, ctl |-> "reject", idx |-> 0, key |-> "",
                                 thr |-> thr, maxq |-> 0, burst |-> 0, dur |-> dur, cap |-> 0, spec |-> <<>>]
B(id, res, strat, retry, num, den) == [id |-> id, res |-> res, strat |-> strat, retry |-> retry, minreq |-> 1, I |-> 1000,
                                       nb |-> 1, maxrt |-> 0, thr |-> <<num, den>>]
S(id, metric, num, den) == [id |-> id, metric |-> metric, thr |-> <<num, den>>, strat |-> "none"]

Pool ==
    CASE Fam = "flow" -> {F("f1", "r1", 2), F("f2", "r1", 3), F("f3", "r2", 1), F("f4", "r1", -1), F("f5", "r1", 2), F("f6", "", 1)}
      [] Fam = "iso"  -> {I("i1", "r1", 1), I("i2", "r1", 2), I("i3", "r2", 1), I("i4", "r1", 0), I("i5", "r1", 1), I("i6", "", 1)}
      [] Fam = "hot"  -> {H("h1", "r1", "conc", 1, 0), H("h2", "r1", "qps", 2, 1), H("h3", "r2", "qps", 1, 2),
                          H("h4", "r1", "qps", 2, 0), H("h5", "r1", "conc", 1, 0), H("h6", "", "conc", 1, 0)}
      [] Fam = "cb"   -> {B("c1", "r1", "ecount", 1000, 2, 1), B("c2", "r1", "eratio", 500, 1, 2), B("c3", "r2", "slow", 1000, 1, 2),
                          B("c4", "r1", "eratio", 1000, 3, 2), B("c5", "r1", "ecount", 1000, 2, 1), B("c6", "r1", "ecount", 0, 1, 1)}
      [] Fam = "sys"  -> {S("s1", "load", 1, 2), S("s2", "load", 3, 4), S("s3", "qps", 5, 1), S("s4", "cpu", 101, 1),
                          S("s5", "load", 1, 2), S("s6", "load", 2, 1)}

Ress == IF Fam = "sys" THEN {} ELSE {"r1", "r2", ""}
RuleSeqs == {SetToSeq(s) : s \in {x \in SUBSET Pool : Cardinality(x) <= MaxSet}}

Ops ==
    {[e |-> "load", fam |-> Fam, op |-> "all", t |-> now, rules |-> rs] : rs \in RuleSeqs}
    \cup {[e |-> "load", fam |-> Fam, op |-> "res", res |-> p[1], t |-> now, rules |-> p[2]] :
             p \in {q \in Ress \X RuleSeqs : \A i \in 1..Len(q[2]) : q[2][i].res = q[1]}}
    \cup {[e |-> "load", fam |-> Fam, op |-> "append", t |-> now, rules |-> <<p>>] : p \in Pool}
    \cup {[e |-> "load", fam |-> Fam, op |-> "clear", t |-> now, rules |-> <<>>]}
    \cup {[e |-> "load", fam |-> Fam, op |-> "clearres", res |-> r, t |-> now, rules |-> <<>>] : r \in Ress \ {""}}

Log(ev) == hist' = (IF GenMode THEN Append(hist, ev) ELSE <<>>)

MCInit == RMInit /\ hist = <<>>
MCNext ==
    \/ /\ ~on
       /\ LET ev == [e |-> "reset", t |-> 0, obs |-> 0] IN Reset(ev) /\ Log(ev)
    \/ /\ on
       /\ \E ev \in Ops : \E A \in OpSpec(ev).actives : Op(ev, A) /\ Log(ev)
MCSpec == MCInit /\ [][MCNext]_mcvars

GenBound == Len(hist) <= GenDepth
\* "A B A" patterns: what the first operation gave is given again after one intervening operation
\* (the shape that exposes bookkeeping that two views of the rules keep separately)
ABABound == /\ Len(hist) <= 4
            /\ Len(hist) >= 2 => (hist[2].op \in {"all", "res"} /\ Len(hist[2].rules) > 0)
            /\ Len(hist) = 4 => hist[4] = hist[2]
PrintABA == (GenMode /\ Len(hist) = 4 /\ ABABound) => PrintT(<<"REPLAY", ToJson(hist)>>)
PrintBehaviour == (GenMode /\ Len(hist) = GenDepth) => PrintT(<<"REPLAY", ToJson(hist)>>)

GoalTwoActive == ~(\E r1, r2 \in active[Fam] : r1 # r2 /\ ~Eq(r1, r2) /\ KeyOf(Fam, r1) = KeyOf(Fam, r2))
GoalDupKeptTwice == ~(\E r1, r2 \in active[Fam] : r1 # r2 /\ Eq(r1, r2))
=============================================================================
