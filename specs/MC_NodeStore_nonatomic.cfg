SPECIFICATION Spec
CONSTANTS
  N = 3
  Variant = "entry"
  AtomicDec = FALSE
INVARIANT Atomic
CHECK_DEADLOCK FALSE
