----------------------------- MODULE BreakerConc -----------------------------
(***************************************************************************)
(* C16 — circuit-breaker transitions are atomic under concurrency: one     *)
(* probe, one winner.                                                      *)
(*                                                                         *)
(* Tier A (atomic machine, judged on one scheduled execution).  The input  *)
(* is the merged sequence, in the order things happened, of                *)
(*   cs  - a thread starts a call (build / exit of an entry),              *)
(*   tr  - a state transition as the registered listener saw it (the       *)
(*         listener runs inside the breaker's critical section, so these   *)
(*         records are in linearisation order),                            *)
(*   ce  - the call returns (admitted / rejected / done).                  *)
(* Every call takes effect atomically at some instant between cs and ce:   *)
(*   - the transition records chain up to a path of Closed -> Open ->      *)
(*     Half-Open -> {Closed, Open} starting at Closed, each performed by   *)
(*     the one thread whose call it belongs to;                            *)
(*   - Open -> Half-Open is performed by a thread inside a build, not      *)
(*     before the retry instant armed when the breaker (re)opened, and     *)
(*     that request - the probe - is admitted;                             *)
(*   - a request is admitted only if the breaker was Closed at some        *)
(*     instant of its call or it is the probe; it is rejected only if the  *)
(*     breaker was not Closed at some instant of its call;                 *)
(*   - the breaker opens only if enough failed completions have started,   *)
(*     and (single bucket, no retry) it does open if enough have finished. *)
(***************************************************************************)
EXTENDS Integers, Sequences, FiniteSets, TLC

VARIABLES on, cfg, st, retryAt, calls, errStarted, exitStarted, errDone, exitDone, everOpened, probes, ntr

bcvars == <<on, cfg, st, retryAt, calls, errStarted, exitStarted, errDone, exitDone, everOpened, probes, ntr>>

Begin(ev) ==
    /\ ev.e = "begin"
    /\ on' = TRUE /\ cfg' = [thr |-> ev.thr, minreq |-> ev.minreq, retry |-> ev.retry, ext |-> ev.ext]
    /\ st' = "closed" /\ retryAt' = 0 /\ calls' = <<>>
    /\ errStarted' = 0 /\ exitStarted' = 0 /\ errDone' = 0 /\ exitDone' = 0 /\ everOpened' = FALSE
    /\ probes' = 0 /\ ntr' = 0

CallStart(ev) ==
    /\ ev.e = "cs" /\ on
    /\ ev.th \notin DOMAIN calls
    /\ calls' = (ev.th :> [op |-> ev.op, sawClosed |-> st = "closed", sawOther |-> st # "closed", probed |-> FALSE]) @@ calls
    /\ errStarted' = errStarted + (IF ev.op = "exit" /\ ev.err THEN 1 ELSE 0)
    /\ exitStarted' = exitStarted + (IF ev.op = "exit" THEN 1 ELSE 0)
    /\ UNCHANGED <<on, cfg, st, retryAt, errDone, exitDone, everOpened, probes, ntr>>

Allowed(p, n) == <<p, n>> \in {<<"closed", "open">>, <<"open", "halfopen">>, <<"halfopen", "open">>, <<"halfopen", "closed">>}

Transition(ev) ==
    /\ ev.e = "tr" /\ on
    /\ ev.prev = st /\ Allowed(ev.prev, ev.to)                      \* the records chain up to a path
    /\ ev.th \in DOMAIN calls                                       \* performed inside a call of that thread
    /\ CASE ev.to = "halfopen" ->
              /\ calls[ev.th].op = "build"
              /\ ev.t >= retryAt                                     \* not before the retry instant of THIS open phase
              /\ ~calls[ev.th].probed
         [] ev.prev = "closed" ->                                    \* opened by a completion, only with enough failures
              /\ calls[ev.th].op = "exit"
              /\ errStarted >= cfg.thr /\ exitStarted >= cfg.minreq
         \* Half-Open -> Open / Closed: by a completion; or, with rules of other families around, by the
         \* probe's own call when the probe was rejected elsewhere (roll-back, retry instant untouched)
         [] OTHER -> \/ calls[ev.th].op = "exit"
                     \/ cfg.ext /\ calls[ev.th].op = "build" /\ calls[ev.th].probed /\ ev.to = "open"
    /\ st' = ev.to
    /\ retryAt' = IF ev.to = "open" /\ calls[ev.th].op = "exit" THEN ev.t + cfg.retry ELSE retryAt
    /\ everOpened' = (everOpened \/ ev.to = "open")
    /\ probes' = probes + (IF ev.to = "halfopen" THEN 1 ELSE 0)
    /\ ntr' = ntr + 1
    /\ calls' = [th \in DOMAIN calls |->
                   [calls[th] EXCEPT !.sawClosed = @ \/ ev.to = "closed",
                                     !.sawOther = @ \/ ev.to # "closed",
                                     !.probed = @ \/ (th = ev.th /\ ev.to = "halfopen")]]
    /\ UNCHANGED <<on, cfg, errStarted, exitStarted, errDone, exitDone>>

CallEnd(ev) ==
    /\ ev.e = "ce" /\ on
    /\ ev.th \in DOMAIN calls /\ calls[ev.th].op = ev.op
    /\ LET c == calls[ev.th] IN
       IF ev.op = "build"
       THEN /\ ev.r \in {"pass", "block"}
            /\ ev.r = "pass" => (c.sawClosed \/ c.probed)            \* never admitted while Open / Half-Open throughout
            \* rejected only if the breaker was not Closed throughout; the probe itself is admitted
            \* (unless a rule of another family rejects it)
            /\ ev.r = "block" => ((c.sawOther /\ ~c.probed) \/ cfg.ext)
       ELSE ev.r = "ok"
    /\ calls' = [th \in DOMAIN calls \ {ev.th} |-> calls[th]]
    /\ errDone' = errDone + (IF ev.op = "exit" /\ ev.err THEN 1 ELSE 0)
    /\ exitDone' = exitDone + (IF ev.op = "exit" THEN 1 ELSE 0)
    /\ UNCHANGED <<on, cfg, st, retryAt, errStarted, exitStarted, everOpened, probes, ntr>>

End(ev) ==
    /\ ev.e = "end" /\ on
    /\ calls = <<>>
    /\ ev.st = st                                                    \* the breaker is in the state the records lead to
    /\ ev.ntr = ntr                                                  \* every transition was notified exactly once
    \* enough failed completions in one bucket, and it never opened: a lost transition
    /\ (ev.onebucket /\ errDone >= cfg.thr /\ exitDone >= cfg.minreq /\ cfg.thr > 0) => everOpened
    /\ on' = FALSE
    /\ UNCHANGED <<cfg, st, retryAt, calls, errStarted, exitStarted, errDone, exitDone, everOpened, probes, ntr>>

Step(ev) == Begin(ev) \/ CallStart(ev) \/ Transition(ev) \/ CallEnd(ev) \/ End(ev)

BCInit == /\ on = FALSE /\ cfg = [thr |-> 1, minreq |-> 0, retry |-> 1000, ext |-> FALSE] /\ st = "closed" /\ retryAt = 0
          /\ calls = <<>> /\ errStarted = 0 /\ exitStarted = 0 /\ errDone = 0 /\ exitDone = 0
          /\ everOpened = FALSE /\ probes = 0 /\ ntr = 0
=============================================================================
