------------------------------- MODULE Config -------------------------------
(***************************************************************************)
(* C17 — an accepted configuration is usable and the same for every        *)
(* thread.  A case: the statistic geometry (nt, It) of the global array    *)
(* and (n, I) of the default metric window, given by entity or YAML; the   *)
(* observation: whether initialisation accepted it and, if so, the         *)
(* geometry of a node first touched from the initialising thread and of    *)
(* one first touched from another thread.                                  *)
(***************************************************************************)
EXTENDS Integers, Sequences, TLC

\* the default window must be servable by the global array (the documented reuse condition)
Accept(n, I, nt, It) ==
    /\ n > 0 /\ I > 0 /\ I % n = 0
    /\ nt > 0 /\ It > 0 /\ It % nt = 0
    /\ It % I = 0
    /\ (I \div n) % (It \div nt) = 0

CaseOK(c) ==
    /\ ~("panic" \in DOMAIN c)
    /\ c.ok = Accept(c.n, c.I, c.nt, c.It)
    /\ c.ok => /\ c.geo_main = <<c.nt, c.It, c.n, c.I>>       \* geometry as configured ...
               /\ c.geo_other = <<c.nt, c.It, c.n, c.I>>      \* ... for every thread of the process,
               /\ c.geo_early = <<c.nt, c.It, c.n, c.I>>      \* also one that used Sentinel before initialisation
    \* a rejected configuration is not the one in effect: statistics keep working (no panic), with one servable
    \* geometry - whichever the code falls back to - for every thread
    /\ ~c.ok => /\ ~("rej_bad" \in DOMAIN c)
                /\ c.rej_other = c.rej_main /\ c.rej_early = c.rej_main
                /\ Accept(c.rej_main[3], c.rej_main[4], c.rej_main[1], c.rej_main[2])
=============================================================================
