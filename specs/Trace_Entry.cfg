SPECIFICATION TraceSpec
INVARIANT InflightExact
INVARIANT HotCap
POSTCONDITION TraceAccepted
CHECK_DEADLOCK FALSE
