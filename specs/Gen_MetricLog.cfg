SPECIFICATION MCSpec
CONSTANTS
  GenMode = TRUE
  GenDepth = 4
  MaxWrites = 9
  MaxFilesSet = {1, 2}
  MaxSizeSet = {20, 1000}
  LineLen = 10
  Policy = "rollfirst"
  CheckSearch = FALSE
CONSTRAINT GenBound
INVARIANT PrintBehaviour
CHECK_DEADLOCK FALSE
