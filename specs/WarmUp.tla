------------------------------- MODULE WarmUp -------------------------------
(***************************************************************************)
(* C08 — warm-up ramps from threshold/coldFactor up to threshold and cools *)
(* when idle.                                                              *)
(*                                                                         *)
(* Tier B (mechanism): the exact integer model of the token-bucket warm-up *)
(* calculator combined with the reject check on the default 2 x 500 ms     *)
(* window, at half-second granularity: in each bucket a demand of d        *)
(* single-token requests arrives, spread over the bucket.                  *)
(* Tier A (the property): the envelope clauses below, stated over the      *)
(* admissions per calendar second; TLC checks that the mechanism satisfies *)
(* them for every demand profile of the bounded model (refinement), which  *)
(* also calibrates the tolerance Tau used when real traces are judged.     *)
(***************************************************************************)
EXTENDS WarmEnv, Sequences, FiniteSets, TLC

CONSTANTS Q, C, P,       \* threshold (tokens per second), cold factor (0 = default 3), warm-up period (s)
          Tau            \* tolerance of "about"

Cf == EffCold(C)
Warn == (P * Q) \div (Cf - 1)
MaxTok == Warn + 2 * ((P * Q) \div (Cf + 1))
D == MaxTok - Warn
Lo == Q \div Cf

VARIABLES
    half,      \* index of the current half-second bucket (0, 1, 2, ...); second = half \div 2
    stored,    \* tokens in the warm-up bucket
    lastFill,  \* second of the last refill, -1 = never
    synced,    \* second for which the tokens were synchronised already (first request of a second)
    admB,      \* admitted in the last four completed buckets <<half-4, half-3, half-2, half-1>>
    offB,      \* offered, same layout
    run,       \* number of consecutive saturated seconds completed just before the current second
    idle,      \* number of consecutive idle seconds completed just before the current second
    lastAdm,   \* admissions of the last completed second
    coldAt,    \* TRUE if the current second started cold (fresh rule or idle >= 2P seconds before it)
    ok         \* the envelope clauses held for every completed second

wvars == <<half, stored, lastFill, synced, admB, offB, run, idle, lastAdm, coldAt, ok>>

Min(a, b) == IF a < b THEN a ELSE b
Max(a, b) == IF a > b THEN a ELSE b

\* tokens after synchronising at the first request of second s with the previous pass rate prev
Sync(s, prev) ==
    LET gained == IF lastFill < 0 THEN MaxTok            \* first use: the bucket fills up completely
                  ELSE IF stored < Warn \/ prev < Lo THEN Min(stored + (s - lastFill) * Q, MaxTok)
                  ELSE Min(stored, MaxTok)
    IN  Max(gained - prev, 0)

\* largest k with (win + k) * (above*(Cf-1) + D) <= Q * D   (the allowance, cross-multiplied)
Allow(st) == IF st >= Warn THEN (Q * D) \div ((st - Warn) * (Cf - 1) + D) ELSE Q

\* one half-second bucket with demand d (single-token requests spread over the bucket)
Bucket(d) ==
    LET s == half \div 2
        first == d > 0 /\ synced # s
        \* pass rate of the window ending one bucket earlier, as the first request of the second sees it
        prev == admB[3] + admB[4]                       \* the two buckets before the current one
        st == IF first THEN Sync(s, prev) ELSE stored
        room == Max(Allow(st) - admB[4], 0)              \* window = previous bucket + this bucket
        a == Min(d, room)
    IN  /\ stored' = st
        /\ lastFill' = IF first THEN s ELSE lastFill
        /\ synced' = IF first THEN s ELSE synced
        /\ admB' = <<admB[2], admB[3], admB[4], a>>
        /\ offB' = <<offB[2], offB[3], offB[4], d>>

SecondOK(adm, off1, off2, r, cold, prevAdm) == SecondOKp(Q, Cf, P, Tau, adm, off1, off2, r, cold, prevAdm)

Step(d) ==
    /\ Bucket(d)
    /\ half' = half + 1
    /\ IF half % 2 = 1                                    \* a second is completed by this bucket
       THEN LET adm == admB'[3] + admB'[4]
                off1 == offB'[3]
                off2 == offB'[4]
                sat == off1 >= Q /\ off2 >= Q
                isIdle == off1 + off2 = 0
            IN  /\ ok' = (ok /\ SecondOK(adm, off1, off2, run, coldAt, lastAdm))
                /\ run' = IF sat THEN run + 1 ELSE 0
                /\ idle' = IF isIdle THEN idle + 1 ELSE 0
                /\ lastAdm' = adm
                /\ coldAt' = (isIdle /\ (coldAt \/ idle + 1 >= 2 * P))
       ELSE UNCHANGED <<ok, run, idle, lastAdm, coldAt>>

WarmInit ==
    /\ half = 0 /\ stored = 0 /\ lastFill = -1 /\ synced = -1
    /\ admB = <<0, 0, 0, 0>> /\ offB = <<0, 0, 0, 0>>
    /\ run = 0 /\ idle = 0 /\ lastAdm = 0 /\ coldAt = TRUE /\ ok = TRUE

Envelope == ok
=============================================================================
