------------------------------ MODULE MC_Stat ------------------------------
(* Bounded exhaustive model (MC_Stat.cfg) and behaviour generator (Gen_Stat.cfg) for Stat. *)
EXTENDS Stat, Json, SequencesExt

CONSTANTS
    Geos,       \* set of <<n, L>> underlying geometries
    MCKinds,    \* subset of event kinds written
    MaxC,       \* counts 1..MaxC
    MaxTotal,   \* bound on the total recorded (state constraint, exhaustive mode)
    MaxSpan,    \* bound on elapsed time, in array intervals
    GenMode,    \* TRUE: keep the history and print behaviours of length GenDepth
    GenDepth

GeosMC  == {<<1,1>>, <<1,2>>, <<2,1>>, <<2,2>>, <<3,1>>, <<4,1>>, <<2,3>>, <<4,2>>}
GeosGen == {<<1,2>>, <<2,1>>, <<2,2>>, <<4,1>>, <<4,2>>}
KindsPR == {"pass", "rt"}
KindsAll == {"pass", "block", "complete", "error", "rt"}

VARIABLE hist
mcvars == <<svars, hist>>

\* every window (k, J) that passes the reuse check for the geometry, in a fixed order
AllWins(nn, len) ==
    LET ii == nn * len
        S == {w \in [k : 1..nn, J : 1..ii] : WindowOK(w.k, w.J, nn, ii)}
    IN  SetToSortSeq(S, LAMBDA a, b : a.J < b.J \/ (a.J = b.J /\ a.k < b.k))

ResetEvents ==
    {[e |-> "reset", n |-> g[1], I |-> g[1] * g[2], t |-> 0, wins |-> AllWins(g[1], g[2])] : g \in Geos}

\* time steps: none, one tick, to just before / exactly onto the next bucket boundary, one bucket,
\* to the next multiple of the whole interval, a whole interval, more than a whole interval
DTs == {0, 1, L - (now % L) - 1, L - (now % L), L, Interval - (now % Interval), Interval, Interval + 1}
         \ {-1}

WriteEvents ==
    {[e |-> "write", t |-> now + dt, kind |-> kd, c |-> c] : dt \in DTs, kd \in MCKinds, c \in 1..MaxC}
    \* a response time of 0 ms is an event too (it lowers the minimum); only in the depth-bounded behaviour
    \* generation - it does not count against the budget that bounds the exhaustive run
    \cup (IF GenMode /\ "rt" \in MCKinds THEN {[e |-> "write", t |-> now + dt, kind |-> "rt", c |-> 0] : dt \in DTs} ELSE {})
AdvEvents == {[e |-> "adv", t |-> now + dt] : dt \in DTs \ {0}}

MCEvents == IF ~on THEN ResetEvents ELSE WriteEvents \cup AdvEvents

MCInit == StatInit /\ hist = <<>>
MCNext == \E ev \in MCEvents :
             /\ Step(ev)
             /\ hist' = IF GenMode THEN Append(hist, ev) ELSE hist
MCSpec == MCInit /\ [][MCNext]_mcvars

Total == FoldSet(LAMBDA b, acc : acc + ghost[b].pass + ghost[b].block + ghost[b].complete
                                     + ghost[b].error + ghost[b].rt, 0, DOMAIN ghost)

\* exhaustive mode: bound the state, hide nothing (hist stays empty)
StateBound == Total <= MaxTotal /\ now <= MaxSpan * Interval
\* generator mode: bound the length
GenBound == Len(hist) <= GenDepth /\ now <= MaxSpan * Interval

PrintBehaviour == (GenMode /\ Len(hist) = GenDepth) => PrintT(<<"REPLAY", ToJson(hist)>>)

(* Reachability goals: each is expected to be VIOLATED (asserted negated by the self-test). *)
GoalSlotReused == ~(on /\ \E i \in 0..(n-1) : ring[i].start >= Interval /\ ring[i].val # ZB)
GoalAllExpired == ~(on /\ ghost # <<>> /\ \A wi \in 1..Len(wins) :
                       Reading(ghost, L, now, wins[wi]).sum = [i \in 1..5 |-> 0])
GoalBoundaryWide == ~(on /\ now % L = 0 /\ RawWide(ghost, n, L, now, "pass") # RawNarrow(ghost, n, L, now, "pass"))
=============================================================================
