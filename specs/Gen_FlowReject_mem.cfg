SPECIFICATION MCSpec
CONSTANTS
  GenMode = TRUE
  GenDepth = 5
  MaxT = 40
  MaxReloads = 0
  MaxN = 2
  MaxAdm = 100
  RuleSets <- SetsMem
CONSTRAINT GenBound
INVARIANT PrintBehaviour
CHECK_DEADLOCK FALSE
