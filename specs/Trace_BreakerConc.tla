-------------------------- MODULE Trace_BreakerConc --------------------------
EXTENDS BreakerConc, Json, IOUtils
Rec == ndJsonDeserialize(IOEnv.TRACE)
VARIABLE l
tvars == <<bcvars, l>>
TraceInit == BCInit /\ l = 1
TraceNext == /\ l <= Len(Rec) /\ l' = l + 1 /\ Step(Rec[l])
TraceSpec == TraceInit /\ [][TraceNext]_tvars
TraceAccepted ==
    LET d == TLCGet("stats").diameter IN
    IF d - 1 = Len(Rec) THEN TRUE
    ELSE /\ PrintT(<<"TRACE_REJECTED", d, Len(Rec), ToJson(Rec[d])>>)
         /\ FALSE
=============================================================================
