SPECIFICATION Spec
CONSTANTS
  Fam = "iso"
  Sample = 400
INVARIANT PrintCase
CHECK_DEADLOCK FALSE
