SPECIFICATION MCSpec
CONSTANTS
  GenMode = TRUE
  GenDepth = 7
  MaxT = 100000
  MaxC = 1000
  MaxOpen = 2
  RuleSets <- SetsSmall
  WithIso = TRUE
CONSTRAINT GenBound
CHECK_DEADLOCK FALSE
INVARIANT PrintBehaviour
