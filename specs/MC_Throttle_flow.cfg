SPECIFICATION MCSpec
CONSTANTS
  GenMode = FALSE
  GenDepth = 0
  MaxT = 3000
  DTSel = "min"
  MaxN = 2
  FlowSets <- FlowSmall
  HotSets <- HotNone
CONSTRAINT StateBound
INVARIANT BoundedQueue
CHECK_DEADLOCK FALSE
