SPECIFICATION Spec
CONSTANTS
  Fam = "flow"
  Sample = 12000
INVARIANT PrintCase
CHECK_DEADLOCK FALSE
