SPECIFICATION MCSpec
CONSTANTS
  GenMode = TRUE
  GenDepth = 4
  Fam = "sys"
  MaxSet = 2
CHECK_DEADLOCK FALSE
CONSTRAINT ABABound
INVARIANT PrintABA
