---- MODULE Trace_HotspotQps_TTrace_1790208121 ----
EXTENDS Sequences, TLCExt, Toolbox, Naturals, TLC, Trace_HotspotQps

_expression ==
    LET Trace_HotspotQps_TEExpression == INSTANCE Trace_HotspotQps_TEExpression
    IN Trace_HotspotQps_TEExpression!expression
----

_trace ==
    LET Trace_HotspotQps_TETrace == INSTANCE Trace_HotspotQps_TETrace
    IN Trace_HotspotQps_TETrace!trace
----

_inv ==
    ~(
        TLCGet("level") = Len(_TETrace)
        /\
        now = (11371)
        /\
        bk = (("h1~3" :> [a |-> [tokens |-> 3, last |-> 9370, first |-> 9370, admitted |-> 1], c |-> [tokens |-> 3, last |-> 5580, first |-> 5580, admitted |-> 3]]))
        /\
        hot = ({[key |-> "", idx |-> 2, res |-> "r1", dur |-> 1, id |-> "h1~3", spec |-> [a |-> 2, c |-> 4], thr |-> 0, burst |-> 0, cap |-> 0, metric |-> "qps", ctl |-> "reject", maxq |-> 0]})
        /\
        l = (24)
        /\
        foreign = (FALSE)
        /\
        on = (TRUE)
        /\
        order = ([r1 |-> <<"h1~3">>])
    )
----

_init ==
    /\ foreign = _TETrace[1].foreign
    /\ bk = _TETrace[1].bk
    /\ hot = _TETrace[1].hot
    /\ on = _TETrace[1].on
    /\ l = _TETrace[1].l
    /\ now = _TETrace[1].now
    /\ order = _TETrace[1].order
----

_next ==
    /\ \E i,j \in DOMAIN _TETrace:
        /\ \/ /\ j = i + 1
              /\ i = TLCGet("level")
        /\ foreign  = _TETrace[i].foreign
        /\ foreign' = _TETrace[j].foreign
        /\ bk  = _TETrace[i].bk
        /\ bk' = _TETrace[j].bk
        /\ hot  = _TETrace[i].hot
        /\ hot' = _TETrace[j].hot
        /\ on  = _TETrace[i].on
        /\ on' = _TETrace[j].on
        /\ l  = _TETrace[i].l
        /\ l' = _TETrace[j].l
        /\ now  = _TETrace[i].now
        /\ now' = _TETrace[j].now
        /\ order  = _TETrace[i].order
        /\ order' = _TETrace[j].order

\* Uncomment the ASSUME below to write the states of the error trace
\* to the given file in Json format. Note that you can pass any tuple
\* to `JsonSerialize`. For example, a sub-sequence of _TETrace.
    \* ASSUME
    \*     LET J == INSTANCE Json
    \*         IN J!JsonSerialize("Trace_HotspotQps_TTrace_1790208121.json", _TETrace)

=============================================================================

 Note that you can extract this module `Trace_HotspotQps_TEExpression`
  to a dedicated file to reuse `expression` (the module in the 
  dedicated `Trace_HotspotQps_TEExpression.tla` file takes precedence 
  over the module `Trace_HotspotQps_TEExpression` below).

---- MODULE Trace_HotspotQps_TEExpression ----
EXTENDS Sequences, TLCExt, Toolbox, Naturals, TLC, Trace_HotspotQps

expression == 
    [
        \* To hide variables of the `Trace_HotspotQps` spec from the error trace,
        \* remove the variables below.  The trace will be written in the order
        \* of the fields of this record.
        foreign |-> foreign
        ,bk |-> bk
        ,hot |-> hot
        ,on |-> on
        ,l |-> l
        ,now |-> now
        ,order |-> order
        
        \* Put additional constant-, state-, and action-level expressions here:
        \* ,_stateNumber |-> _TEPosition
        \* ,_foreignUnchanged |-> foreign = foreign'
        
        \* Format the `foreign` variable as Json value.
        \* ,_foreignJson |->
        \*     LET J == INSTANCE Json
        \*     IN J!ToJson(foreign)
        
        \* Lastly, you may build expressions over arbitrary sets of states by
        \* leveraging the _TETrace operator.  For example, this is how to
        \* count the number of times a spec variable changed up to the current
        \* state in the trace.
        \* ,_foreignModCount |->
        \*     LET F[s \in DOMAIN _TETrace] ==
        \*         IF s = 1 THEN 0
        \*         ELSE IF _TETrace[s].foreign # _TETrace[s-1].foreign
        \*             THEN 1 + F[s-1] ELSE F[s-1]
        \*     IN F[_TEPosition - 1]
    ]

=============================================================================



Parsing and semantic processing can take forever if the trace below is long.
 In this case, it is advised to uncomment the module below to deserialize the
 trace from a generated binary file.

\*
\*---- MODULE Trace_HotspotQps_TETrace ----
\*EXTENDS IOUtils, TLC, Trace_HotspotQps
\*
\*trace == IODeserialize("Trace_HotspotQps_TTrace_1790208121.bin", TRUE)
\*
\*=============================================================================
\*

---- MODULE Trace_HotspotQps_TETrace ----
EXTENDS TLC, Trace_HotspotQps

trace == 
    <<
    ([now |-> 0,bk |-> <<>>,hot |-> {},l |-> 1,foreign |-> FALSE,on |-> FALSE,order |-> <<>>]),
    ([now |-> 3021,bk |-> <<>>,hot |-> {},l |-> 2,foreign |-> FALSE,on |-> TRUE,order |-> <<>>]),
    ([now |-> 3021,bk |-> [h1 |-> <<>>],hot |-> {[key |-> "", idx |-> 2, res |-> "r1", dur |-> 1, id |-> "h1", spec |-> [a |-> 2, c |-> 4], thr |-> 0, burst |-> 2, cap |-> 0, metric |-> "qps", ctl |-> "reject", maxq |-> 0]},l |-> 3,foreign |-> FALSE,on |-> TRUE,order |-> [r1 |-> <<"h1">>]]),
    ([now |-> 3104,bk |-> [h1 |-> <<>>],hot |-> {[key |-> "", idx |-> 2, res |-> "r1", dur |-> 1, id |-> "h1", spec |-> [a |-> 2, c |-> 4], thr |-> 0, burst |-> 2, cap |-> 0, metric |-> "qps", ctl |-> "reject", maxq |-> 0]},l |-> 4,foreign |-> FALSE,on |-> TRUE,order |-> [r1 |-> <<"h1">>]]),
    ([now |-> 4103,bk |-> [h1 |-> <<>>],hot |-> {[key |-> "", idx |-> 2, res |-> "r1", dur |-> 1, id |-> "h1", spec |-> [a |-> 2, c |-> 4], thr |-> 0, burst |-> 2, cap |-> 0, metric |-> "qps", ctl |-> "reject", maxq |-> 0]},l |-> 5,foreign |-> FALSE,on |-> TRUE,order |-> [r1 |-> <<"h1">>]]),
    ([now |-> 4580,bk |-> [h1 |-> <<>>],hot |-> {[key |-> "", idx |-> 2, res |-> "r1", dur |-> 1, id |-> "h1", spec |-> [a |-> 2, c |-> 4], thr |-> 0, burst |-> 2, cap |-> 0, metric |-> "qps", ctl |-> "reject", maxq |-> 0]},l |-> 6,foreign |-> FALSE,on |-> TRUE,order |-> [r1 |-> <<"h1">>]]),
    ([now |-> 5580,bk |-> [h1 |-> <<>>],hot |-> {[key |-> "", idx |-> 2, res |-> "r1", dur |-> 1, id |-> "h1", spec |-> [a |-> 2, c |-> 4], thr |-> 0, burst |-> 2, cap |-> 0, metric |-> "qps", ctl |-> "reject", maxq |-> 0]},l |-> 7,foreign |-> FALSE,on |-> TRUE,order |-> [r1 |-> <<"h1">>]]),
    ([now |-> 5580,bk |-> [h1 |-> [c |-> [tokens |-> 3, last |-> 5580, first |-> 5580, admitted |-> 3]]],hot |-> {[key |-> "", idx |-> 2, res |-> "r1", dur |-> 1, id |-> "h1", spec |-> [a |-> 2, c |-> 4], thr |-> 0, burst |-> 2, cap |-> 0, metric |-> "qps", ctl |-> "reject", maxq |-> 0]},l |-> 8,foreign |-> FALSE,on |-> TRUE,order |-> [r1 |-> <<"h1">>]]),
    ([now |-> 5581,bk |-> [h1 |-> [c |-> [tokens |-> 3, last |-> 5580, first |-> 5580, admitted |-> 3]]],hot |-> {[key |-> "", idx |-> 2, res |-> "r1", dur |-> 1, id |-> "h1", spec |-> [a |-> 2, c |-> 4], thr |-> 0, burst |-> 2, cap |-> 0, metric |-> "qps", ctl |-> "reject", maxq |-> 0]},l |-> 9,foreign |-> FALSE,on |-> TRUE,order |-> [r1 |-> <<"h1">>]]),
    ([now |-> 5581,bk |-> [h1 |-> [c |-> [tokens |-> 3, last |-> 5580, first |-> 5580, admitted |-> 3]]],hot |-> {[key |-> "", idx |-> 2, res |-> "r1", dur |-> 1, id |-> "h1", spec |-> [a |-> 2, c |-> 4], thr |-> 0, burst |-> 2, cap |-> 0, metric |-> "qps", ctl |-> "reject", maxq |-> 0]},l |-> 10,foreign |-> FALSE,on |-> TRUE,order |-> [r1 |-> <<"h1">>]]),
    ([now |-> 6581,bk |-> [h1 |-> [c |-> [tokens |-> 3, last |-> 5580, first |-> 5580, admitted |-> 3]]],hot |-> {[key |-> "", idx |-> 2, res |-> "r1", dur |-> 1, id |-> "h1", spec |-> [a |-> 2, c |-> 4], thr |-> 0, burst |-> 2, cap |-> 0, metric |-> "qps", ctl |-> "reject", maxq |-> 0]},l |-> 11,foreign |-> FALSE,on |-> TRUE,order |-> [r1 |-> <<"h1">>]]),
    ([now |-> 6581,bk |-> ("h1~1" :> [c |-> [tokens |-> 3, last |-> 5580, first |-> 5580, admitted |-> 3]]),hot |-> {[key |-> "", idx |-> 2, res |-> "r1", dur |-> 1, id |-> "h1~1", spec |-> [a |-> 2, c |-> 4], thr |-> 0, burst |-> 2, cap |-> 0, metric |-> "qps", ctl |-> "reject", maxq |-> 0]},l |-> 12,foreign |-> FALSE,on |-> TRUE,order |-> [r1 |-> <<"h1~1">>]]),
    ([now |-> 6965,bk |-> ("h1~1" :> [c |-> [tokens |-> 3, last |-> 5580, first |-> 5580, admitted |-> 3]]),hot |-> {[key |-> "", idx |-> 2, res |-> "r1", dur |-> 1, id |-> "h1~1", spec |-> [a |-> 2, c |-> 4], thr |-> 0, burst |-> 2, cap |-> 0, metric |-> "qps", ctl |-> "reject", maxq |-> 0]},l |-> 13,foreign |-> FALSE,on |-> TRUE,order |-> [r1 |-> <<"h1~1">>]]),
    ([now |-> 6965,bk |-> ("h1~1" :> [c |-> [tokens |-> 3, last |-> 5580, first |-> 5580, admitted |-> 3]]),hot |-> {[key |-> "", idx |-> 2, res |-> "r1", dur |-> 1, id |-> "h1~1", spec |-> [a |-> 2, c |-> 4], thr |-> 0, burst |-> 2, cap |-> 0, metric |-> "qps", ctl |-> "reject", maxq |-> 0]},l |-> 14,foreign |-> FALSE,on |-> TRUE,order |-> [r1 |-> <<"h1~1">>]]),
    ([now |-> 8498,bk |-> ("h1~1" :> [c |-> [tokens |-> 3, last |-> 5580, first |-> 5580, admitted |-> 3]]),hot |-> {[key |-> "", idx |-> 2, res |-> "r1", dur |-> 1, id |-> "h1~1", spec |-> [a |-> 2, c |-> 4], thr |-> 0, burst |-> 2, cap |-> 0, metric |-> "qps", ctl |-> "reject", maxq |-> 0]},l |-> 15,foreign |-> FALSE,on |-> TRUE,order |-> [r1 |-> <<"h1~1">>]]),
    ([now |-> 8498,bk |-> ("h1~1" :> [c |-> [tokens |-> 3, last |-> 5580, first |-> 5580, admitted |-> 3]]),hot |-> {[key |-> "", idx |-> 2, res |-> "r1", dur |-> 1, id |-> "h1~1", spec |-> [a |-> 2, c |-> 4], thr |-> 0, burst |-> 2, cap |-> 0, metric |-> "qps", ctl |-> "reject", maxq |-> 0]},l |-> 16,foreign |-> FALSE,on |-> TRUE,order |-> [r1 |-> <<"h1~1">>]]),
    ([now |-> 9063,bk |-> ("h1~1" :> [c |-> [tokens |-> 3, last |-> 5580, first |-> 5580, admitted |-> 3]]),hot |-> {[key |-> "", idx |-> 2, res |-> "r1", dur |-> 1, id |-> "h1~1", spec |-> [a |-> 2, c |-> 4], thr |-> 0, burst |-> 2, cap |-> 0, metric |-> "qps", ctl |-> "reject", maxq |-> 0]},l |-> 17,foreign |-> FALSE,on |-> TRUE,order |-> [r1 |-> <<"h1~1">>]]),
    ([now |-> 9370,bk |-> ("h1~1" :> [c |-> [tokens |-> 3, last |-> 5580, first |-> 5580, admitted |-> 3]]),hot |-> {[key |-> "", idx |-> 2, res |-> "r1", dur |-> 1, id |-> "h1~1", spec |-> [a |-> 2, c |-> 4], thr |-> 0, burst |-> 2, cap |-> 0, metric |-> "qps", ctl |-> "reject", maxq |-> 0]},l |-> 18,foreign |-> FALSE,on |-> TRUE,order |-> [r1 |-> <<"h1~1">>]]),
    ([now |-> 9370,bk |-> ("h1~1" :> [a |-> [tokens |-> 3, last |-> 9370, first |-> 9370, admitted |-> 1], c |-> [tokens |-> 3, last |-> 5580, first |-> 5580, admitted |-> 3]]),hot |-> {[key |-> "", idx |-> 2, res |-> "r1", dur |-> 1, id |-> "h1~1", spec |-> [a |-> 2, c |-> 4], thr |-> 0, burst |-> 2, cap |-> 0, metric |-> "qps", ctl |-> "reject", maxq |-> 0]},l |-> 19,foreign |-> FALSE,on |-> TRUE,order |-> [r1 |-> <<"h1~1">>]]),
    ([now |-> 9370,bk |-> ("h1~1" :> [a |-> [tokens |-> 3, last |-> 9370, first |-> 9370, admitted |-> 1], c |-> [tokens |-> 3, last |-> 5580, first |-> 5580, admitted |-> 3]]),hot |-> {[key |-> "", idx |-> 2, res |-> "r1", dur |-> 1, id |-> "h1~1", spec |-> [a |-> 2, c |-> 4], thr |-> 0, burst |-> 2, cap |-> 0, metric |-> "qps", ctl |-> "reject", maxq |-> 0]},l |-> 20,foreign |-> FALSE,on |-> TRUE,order |-> [r1 |-> <<"h1~1">>]]),
    ([now |-> 11371,bk |-> ("h1~1" :> [a |-> [tokens |-> 3, last |-> 9370, first |-> 9370, admitted |-> 1], c |-> [tokens |-> 3, last |-> 5580, first |-> 5580, admitted |-> 3]]),hot |-> {[key |-> "", idx |-> 2, res |-> "r1", dur |-> 1, id |-> "h1~1", spec |-> [a |-> 2, c |-> 4], thr |-> 0, burst |-> 2, cap |-> 0, metric |-> "qps", ctl |-> "reject", maxq |-> 0]},l |-> 21,foreign |-> FALSE,on |-> TRUE,order |-> [r1 |-> <<"h1~1">>]]),
    ([now |-> 11371,bk |-> ("h1~2" :> [a |-> [tokens |-> 3, last |-> 9370, first |-> 9370, admitted |-> 1], c |-> [tokens |-> 3, last |-> 5580, first |-> 5580, admitted |-> 3]]),hot |-> {[key |-> "", idx |-> 2, res |-> "r1", dur |-> 1, id |-> "h1~2", spec |-> [a |-> 2, c |-> 4], thr |-> 0, burst |-> 2, cap |-> 0, metric |-> "qps", ctl |-> "reject", maxq |-> 0]},l |-> 22,foreign |-> FALSE,on |-> TRUE,order |-> [r1 |-> <<"h1~2">>]]),
    ([now |-> 11371,bk |-> ("h1~2" :> [a |-> [tokens |-> 3, last |-> 9370, first |-> 9370, admitted |-> 1], c |-> [tokens |-> 3, last |-> 5580, first |-> 5580, admitted |-> 3]]),hot |-> {[key |-> "", idx |-> 2, res |-> "r1", dur |-> 1, id |-> "h1~2", spec |-> [a |-> 2, c |-> 4], thr |-> 0, burst |-> 2, cap |-> 0, metric |-> "qps", ctl |-> "reject", maxq |-> 0]},l |-> 23,foreign |-> FALSE,on |-> TRUE,order |-> [r1 |-> <<"h1~2">>]]),
    ([now |-> 11371,bk |-> ("h1~3" :> [a |-> [tokens |-> 3, last |-> 9370, first |-> 9370, admitted |-> 1], c |-> [tokens |-> 3, last |-> 5580, first |-> 5580, admitted |-> 3]]),hot |-> {[key |-> "", idx |-> 2, res |-> "r1", dur |-> 1, id |-> "h1~3", spec |-> [a |-> 2, c |-> 4], thr |-> 0, burst |-> 0, cap |-> 0, metric |-> "qps", ctl |-> "reject", maxq |-> 0]},l |-> 24,foreign |-> FALSE,on |-> TRUE,order |-> [r1 |-> <<"h1~3">>]])
    >>
----


=============================================================================

---- CONFIG Trace_HotspotQps_TTrace_1790208121 ----

INVARIANT
    _inv

CHECK_DEADLOCK
    \* CHECK_DEADLOCK off because of PROPERTY or INVARIANT above.
    FALSE

INIT
    _init

NEXT
    _next

CONSTANT
    _TETrace <- _trace

ALIAS
    _expression
=============================================================================
\* Generated on Thu Sep 24 00:02:03 UTC 2026