SPECIFICATION MCSpec
CONSTANTS
  GenMode = TRUE
  GenDepth = 14
  MaxT = 100000
  MaxN = 2
  MaxSteps = 100
  DTSel = "min"
  ArgSel = "lru"
  RuleSets <- SetsLru
CONSTRAINT GenBound
INVARIANT PrintBehaviour
CHECK_DEADLOCK FALSE
