---------------------------- MODULE MC_MetricLog ----------------------------
(***************************************************************************)
(* Bounded model of the metric log: a mechanism model of the writer (index *)
(* entry per new second, roll by day and by size, retention) produces the  *)
(* operation stream that MetricLog.tla judges (W1-W5, retention), and a    *)
(* mechanism model of the index-based search is checked against ResultOK   *)
(* for every query window / line limit and for EVERY prefix of the stream  *)
(* (crash points).  The same module generates the write histories that     *)
(* are replayed into the real writer and searcher.                         *)
(***************************************************************************)
EXTENDS MetricLog, Json, SequencesExt, FiniteSetsExt

CONSTANTS GenMode, GenDepth, MaxWrites, MaxFilesSet, MaxSizeSet, LineLen, Policy, CheckSearch

VARIABLES
    cur,      \* name of the file being written
    curSize,  \* its size in bytes
    maxsize,
    nserial,
    mfiles,   \* mechanism's view: names of existing files, in creation (= sorted) order
    content,  \* file name -> sequence of [s, sec, res, off (byte offset of the line), lb, le]
    index,    \* file name -> sequence of [sec, off, e (stream position the entry was complete at)]
    prevPos,  \* stream length before the last call (crash points before it were examined in the previous state)
    hist

mcvars == <<mvars, cur, curSize, maxsize, nserial, mfiles, content, index, prevPos, hist>>

Day == 86400
T0 == 86390                      \* the writer is created 10 s before midnight
DayOf(t) == t \div Day
NameOf(d, n) == "d" \o ToString(d) \o (IF n = 0 THEN "" ELSE "." \o ToString(n))

\* files of day d ever created are numbered 0, 1, 2, ...: the next number is one more than the
\* largest existing one (the code looks at the directory)
NumsOf(fs, d) == {n \in 0..20 : \E i \in 1..Len(fs) : fs[i] = NameOf(d, n)}
NextName(fs, d) == IF NumsOf(fs, d) = {} THEN NameOf(d, 0) ELSE NameOf(d, Max(NumsOf(fs, d)) + 1)

Op(k, f) == [k |-> k, f |-> f]
\* roll to the next file of the day of t: drop the oldest files beyond the limit, create the new one
RollOps(fs, t, mf) ==
    LET nrem == IF Len(fs) >= mf THEN Len(fs) - mf + 1 ELSE 0
        rem == [i \in 1..nrem |-> fs[i]]
        new == NextName(fs, DayOf(t))
        remops == FoldLeft(LAMBDA acc, f : acc \o <<Op("remove", f), Op("removeidx", f)>>, <<>>, rem)
    IN  [ops |-> remops \o <<Op("create", new), Op("createidx", new)>>,
         fs |-> SubSeq(fs, nrem + 1, Len(fs)) \o <<new>>, cur |-> new]

\* the operations of write(t, its) as the writer issues them.
\* Policy "rollfirst" (the code as repaired): a write in a new second first rolls to the next file if a
\*   new day began or the size limit was reached by the seconds before, then indexes the second, then
\*   appends its lines - a second's entry and lines share a file and every file starts indexed.
\* Policy "old" (the code as found): index entry into the current file, roll if a new day began, lines,
\*   roll if the size limit is reached - kept so that TLC refutes it (see MC_MetricLog_old.cfg).
NoRoll(fs, c) == [ops |-> <<>>, fs |-> fs, cur |-> c]
WriteOps(t, its) ==
    LET newsec == t > latest
        newday == newsec /\ DayOf(t) > DayOf(latest)
        first == Policy = "rollfirst"
        r0 == IF first /\ newsec /\ (newday \/ curSize >= maxsize) THEN RollOps(mfiles, t, maxfiles) ELSE NoRoll(mfiles, cur)
        size0 == IF r0.ops # <<>> THEN 0 ELSE curSize
        idxop == IF newsec THEN <<[k |-> "idx", f |-> r0.cur, n |-> 16, sec |-> t, off |-> size0]>> ELSE <<>>
        r1 == IF ~first /\ newday THEN RollOps(r0.fs, t, maxfiles) ELSE NoRoll(r0.fs, r0.cur)
        size1 == IF r1.ops # <<>> THEN 0 ELSE size0
        lines == [i \in 1..Len(its) |-> [k |-> "line", f |-> r1.cur, n |-> LineLen, s |-> its[i].s,
                                          off |-> size1 + (i - 1) * LineLen]]
        size2 == size1 + Len(its) * LineLen
        r2 == IF ~first /\ size2 >= maxsize THEN RollOps(r1.fs, t, maxfiles) ELSE NoRoll(r1.fs, r1.cur)
    IN  [ops |-> r0.ops \o idxop \o r1.ops \o lines \o r2.ops,
         fs |-> r2.fs, cur |-> r2.cur, size |-> IF r2.ops # <<>> THEN 0 ELSE size2]

(* ------------------- the mechanism's directory contents ----------------- *)
\* stream positions of the operations of one call, starting at p0
RECURSIVE Ends(_, _, _)
Ends(ops, i, p) == IF i > Len(ops) THEN <<>> ELSE <<p + OpLen(ops[i])>> \o Ends(ops, i + 1, p + OpLen(ops[i]))

AddContent(cn, ix, ops, ends, t, its) ==
    LET step(acc, i) ==
          LET op == ops[i] IN
          CASE op.k = "create" -> [acc EXCEPT !.c = (op.f :> <<>>) @@ @, !.x = (op.f :> <<>>) @@ @]
            [] op.k = "line" ->
                 LET it == CHOOSE x \in SeqToSet(its) : x.s = op.s IN
                 [acc EXCEPT !.c[op.f] = Append(@, [s |-> op.s, sec |-> t, res |-> it.res, off |-> op.off,
                                                    lb |-> ends[i] - op.n, le |-> ends[i]])]
            [] op.k = "idx" -> [acc EXCEPT !.x[op.f] = Append(@, [sec |-> op.sec, off |-> op.off, e |-> ends[i]])]
            [] OTHER -> acc
    IN  FoldLeft(step, [c |-> cn, x |-> ix], [i \in 1..Len(ops) |-> i])

(* --------------------- the index-based search, at prefix k --------------- *)
\* files of the directory that holds the first k units, in sorted order, with what is readable:
\* complete lines (a torn last line does not parse here), complete index entries
DirFiles(k) == SelectSeq([i \in 1..Len(files) |-> files[i]],
                         LAMBDA f : f.c <= k /\ (f.r = 0 \/ f.r > k))
HasIdx(f, k) == f.ic > 0 /\ f.ic <= k /\ (f.ir = 0 \/ f.ir > k)
LinesAt(f, k) == SelectSeq(content[f.name], LAMBDA ln : ln.le <= k)
IdxAt2(f, k) == SelectSeq(index[f.name], LAMBDA en : en.e <= k)

\* find_offset_to_start: the offset of the first index entry whose second is >= the begin second;
\* "none" when the file has no such entry (the corrected searcher then tries the next file)
OffsetIn(f, k, bsec) ==
    LET es == IdxAt2(f, k)
        hit == {i \in 1..Len(es) : es[i].sec >= bsec}
    IN  IF hit = {} THEN -1 ELSE es[Min(hit)].off

\* read lines of the files from number i on, file i from byte offset `off`, the others from 0
RECURSIVE ReadTime(_, _, _, _, _, _)
ReadTime(fs, i, off, k, q, acc) ==
    IF i > Len(fs) THEN acc
    ELSE LET ls == SelectSeq(LinesAt(fs[i], k), LAMBDA ln : ln.off >= off)
             bad == {j \in 1..Len(ls) : ls[j].sec < q.b \div 1000 \/ ls[j].sec > q.e2 \div 1000}
             upto == IF bad = {} THEN Len(ls) ELSE Min(bad) - 1
             take == SelectSeq(SubSeq(ls, 1, upto), LAMBDA ln : q.res = "" \/ q.res = ln.res)
         IN  IF bad = {} THEN ReadTime(fs, i + 1, 0, k, q, acc \o take) ELSE acc \o take

RECURSIVE ReadFrom(_, _, _, _, _, _)
ReadFrom(fs, i, off, k, q, acc) ==
    IF i > Len(fs) THEN acc
    ELSE LET ls == SelectSeq(LinesAt(fs[i], k), LAMBDA ln : ln.off >= off)
             \* stop before the first line of a new second once max lines are collected
             stop == {j \in 1..Len(ls) : Len(acc) + j - 1 >= q.max /\
                          ls[j].sec # (IF j = 1 THEN (IF acc = <<>> THEN 0 ELSE Last(acc).sec) ELSE ls[j - 1].sec)}
             upto == IF stop = {} THEN Len(ls) ELSE Min(stop) - 1
             acc2 == acc \o SubSeq(ls, 1, upto)
         IN  \* at the end of a file the reader goes on only while fewer than max lines are collected
             IF stop = {} /\ Len(acc2) < q.max THEN ReadFrom(fs, i + 1, 0, k, q, acc2) ELSE acc2

RECURSIVE SearchFrom(_, _, _, _)
SearchFrom(fs, i, k, q) ==
    IF i > Len(fs) THEN <<>>
    ELSE IF ~HasIdx(fs[i], k) THEN SearchFrom(fs, i + 1, k, q)
    ELSE LET off == OffsetIn(fs[i], k, q.b \div 1000) IN
         IF off < 0 THEN SearchFrom(fs, i + 1, k, q)
         ELSE IF q.kind = "time" THEN ReadTime(fs, i, off, k, q, <<>>) ELSE ReadFrom(fs, i, off, k, q, <<>>)

Search(q, k) == LET r == SearchFrom(DirFiles(k), 1, k, q) IN
                [q EXCEPT !.out = [j \in 1..Len(r) |-> [s |-> r[j].s, x |-> TRUE]], !.ret = "ok"]

\* the queries asked: every window of whole seconds around the written ones, every line limit
Secs == {created - 1, created} \cup {items[i].sec : i \in 1..Len(items)} \cup {latest + 1}
Ress == {""} \cup {items[i].res : i \in 1..Len(items)}
Queries ==
    {[e |-> "q", kind |-> "time", b |-> b * 1000, e2 |-> e2 * 1000 + 999, res |-> r, out |-> <<>>, ret |-> ""] :
        b \in Secs, e2 \in Secs, r \in Ress}
    \cup {[e |-> "q", kind |-> "from", b |-> b * 1000, max |-> m, out |-> <<>>, ret |-> ""] : b \in Secs, m \in {0, 1, 2, Len(items) + 1}}

\* Crash points worth distinguishing: the ends of operations and their neighbours (all positions strictly
\* inside one line or one index entry leave the same directory as far as parsing goes: a torn tail)
Marks == {0, pos} \cup {items[i].lb : i \in 1..Len(items)} \cup {items[i].le : i \in 1..Len(items)}
         \cup {idxEnd[x] : x \in DOMAIN idxEnd} \cup {idxEnd[x] - 16 : x \in DOMAIN idxEnd}
         \cup UNION {{files[i].c, files[i].r, files[i].ic, files[i].ir} : i \in 1..Len(files)}
CrashPoints == {k \in prevPos..pos : k \in Marks \/ (k - 1) \in Marks \/ (k + 1) \in Marks}

\* Tier B refines Tier A: the index-based search returns what is owed, at every crash point
SearchRefines ==
    (CheckSearch /\ on) => \A k \in CrashPoints : \A q \in Queries : ResultOK(Search(q, k), k)

SearchDbg ==
    (CheckSearch /\ on) => \A k \in CrashPoints : \A q \in Queries :
        ResultOK(Search(q, k), k) \/ (PrintT(<<"FAIL", k, Search(q, k)>>) /\ FALSE)

(* ------------------------------- events -------------------------------- *)
Ress2 == {"a", "b"}
ItemSets == {<<[s |-> nserial + 1, res |-> "a"]>>,
             <<[s |-> nserial + 1, res |-> "a"], [s |-> nserial + 2, res |-> "b"]>>,
             <<[s |-> nserial + 1, res |-> "b"], [s |-> nserial + 2, res |-> "a"], [s |-> nserial + 3, res |-> "a"]>>}
\* same second again, next second, a gap, across midnight
Times == {latest, latest + 1, latest + 3, IF latest < Day THEN Day ELSE latest + 2, IF latest < Day THEN Day + 1 ELSE latest + 5}

MCReset ==
    /\ ~on
    /\ \E mf \in MaxFilesSet, ms \in MaxSizeSet, sl \in {TRUE} :
         LET first == NameOf(DayOf(T0), 0)
             ev == [e |-> "reset", t |-> T0, maxfiles |-> mf, maxsize |-> ms, slash |-> sl,
                    ops |-> <<Op("create", first), Op("createidx", first)>>]
         IN  /\ Reset(ev)
             /\ cur' = first /\ curSize' = 0 /\ maxsize' = ms /\ nserial' = 0 /\ mfiles' = <<first>>
             /\ content' = (first :> <<>>) /\ index' = (first :> <<>>) /\ prevPos' = 0
             /\ hist' = IF GenMode THEN <<[e |-> "reset", t |-> T0, maxfiles |-> mf, maxsize |-> ms, slash |-> sl]>> ELSE <<>>

MCWrite ==
    /\ on /\ nserial < MaxWrites
    /\ \E t \in Times, its \in ItemSets :
         LET w == WriteOps(t, its)
             ev == [e |-> "write", t |-> t, ms |-> 0, items |-> its, ops |-> w.ops, ret |-> "ok"]
             ends == Ends(w.ops, 1, pos)
             cx == AddContent(content, index, w.ops, ends, t, its)
         IN  /\ Write(ev)
             /\ cur' = w.cur /\ curSize' = w.size /\ mfiles' = w.fs /\ nserial' = nserial + Len(its)
             /\ content' = cx.c /\ index' = cx.x /\ prevPos' = pos
             /\ hist' = IF GenMode THEN Append(hist, [e |-> "write", t |-> t, ms |-> 0, items |-> its]) ELSE <<>>
    /\ UNCHANGED maxsize

MCInit == MLInit /\ cur = "" /\ curSize = 0 /\ maxsize = 0 /\ nserial = 0 /\ mfiles = <<>>
          /\ content = <<>> /\ index = <<>> /\ prevPos = 0 /\ hist = <<>>
MCNext == MCReset \/ MCWrite
MCSpec == MCInit /\ [][MCNext]_mcvars

GenBound == Len(hist) <= GenDepth
PrintBehaviour == (GenMode /\ Len(hist) = GenDepth) => PrintT(<<"REPLAY", ToJson(hist)>>)
View == <<mvars, cur, curSize, maxsize, nserial, mfiles, content, index, prevPos>>

\* reachability goals (negated)
GoalRolledBySize == ~(on /\ Len(files) >= 2 /\ DayOf(latest) = DayOf(T0) /\ Len(items) >= 3)
GoalRolledByDay == ~(on /\ DayOf(latest) > DayOf(T0) /\ Len(items) >= 2)
GoalRemoved == ~(on /\ \E i \in 1..Len(files) : files[i].r > 0)
=============================================================================
