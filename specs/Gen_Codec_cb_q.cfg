SPECIFICATION Spec
CONSTANTS
  Fam = "cb"
  Sample = 60
INVARIANT PrintCase
CHECK_DEADLOCK FALSE
