------------------------------ MODULE MetricLog ------------------------------
(***************************************************************************)
(* C19 — metric log: written items can be searched back; a torn tail loses *)
(* one line.                                                               *)
(*                                                                         *)
(* Tier A.  The writer's output is a *stream of file operations* in        *)
(* program order (observed through the guarded file-operation hook):       *)
(*   create f / createidx f / remove f / removeidx f   (1 unit each)       *)
(*   idx f sec   (16 bytes: one index entry)                               *)
(*   line f s    (n bytes: the line of the item with serial s)             *)
(* The roll-over policy is NOT prescribed: which file a line goes to is    *)
(* taken from the stream.  What is prescribed:                             *)
(*   W1  every item of an accepted write gets exactly one line, in order;  *)
(*   W2  a write in a new second issues that second's index entry before   *)
(*       its lines (a write continuing a second may issue one more, e.g.   *)
(*       in a new file);                                                   *)
(*   W3  lines and index entries go to files that exist;                   *)
(*   W4  (retention) a file is removed only if it is the oldest existing   *)
(*       one and the limit would otherwise be exceeded;                    *)
(*   W5  a file name is created once (re-creating truncates what was       *)
(*       written);                                                         *)
(* and, for a directory that holds the first k units of the stream (k =    *)
(* everything: no crash), an item is OWED iff its line is complete, its    *)
(* second's index entry is complete, its file exists, and it was written   *)
(* in a second after the writer was created.  Searches must return the     *)
(* owed items that match, in write order; what else they may return is     *)
(* limited to items really written and matching (and the torn last line).  *)
(***************************************************************************)
EXTENDS Integers, Sequences, FiniteSets, TLC

VARIABLES
    on,
    maxfiles,
    created,   \* second the writer was created in
    latest,    \* latest second written (the writer ignores older ones)
    pos,       \* length of the operation stream so far (units)
    files,     \* sequence of [name, c (position its creation completed), r (position its removal completed, 0 = exists),
               \*              ic, ir (same for its index file)] in creation order
    items,     \* sequence of [s, sec, res, f, lb, le (line begins/ends at), ie (its second's index entry ends at)]
    idxEnd     \* second -> position at which its index entry was complete

mvars == <<on, maxfiles, created, latest, pos, files, items, idxEnd>>

SeqToSet(s) == {s[i] : i \in 1..Len(s)}
Last(s) == s[Len(s)]

FileIdx(fs, name) == {i \in 1..Len(fs) : fs[i].name = name}
\* the file `name` as it exists (created, not removed) in the stream built so far
Exists(fs, name) == \E i \in FileIdx(fs, name) : fs[i].r = 0
Existing(fs) == {i \in 1..Len(fs) : fs[i].r = 0}
Oldest(fs) == CHOOSE i \in Existing(fs) : \A j \in Existing(fs) : i <= j

OpLen(op) == IF op.k \in {"idx", "line"} THEN op.n ELSE 1

(* Fold the operations of one writer call over the stream state.                     *)
(* st = [pos, files, lines (sequence of [s, f, lb, le]), idx (sequence of [sec, e]), ok] *)
ApplyOp(st, op) ==
    LET p2 == st.pos + OpLen(op) IN
    CASE op.k = "create" ->
            [st EXCEPT !.pos = p2,
                       !.ok = @ /\ FileIdx(st.files, op.f) = {},                                  \* W5
                       !.files = Append(@, [name |-> op.f, c |-> p2, r |-> 0, ic |-> 0, ir |-> 0])]
      [] op.k = "createidx" ->
            IF Exists(st.files, op.f)
            THEN LET i == CHOOSE i \in FileIdx(st.files, op.f) : st.files[i].r = 0 IN
                 [st EXCEPT !.pos = p2, !.ok = @ /\ st.files[i].ic = 0, !.files[i].ic = p2]
            ELSE [st EXCEPT !.pos = p2, !.ok = FALSE]
      [] op.k = "remove" ->
            IF Exists(st.files, op.f)
            THEN LET i == CHOOSE i \in FileIdx(st.files, op.f) : st.files[i].r = 0 IN
                 [st EXCEPT !.pos = p2,
                            !.ok = @ /\ i = Oldest(st.files) /\ Cardinality(Existing(st.files)) >= maxfiles,   \* W4
                            !.files[i].r = p2]
            ELSE [st EXCEPT !.pos = p2, !.ok = FALSE]
      [] op.k = "removeidx" ->
            LET c == {i \in FileIdx(st.files, op.f) : st.files[i].ir = 0 /\ st.files[i].ic > 0} IN
            IF c = {} THEN [st EXCEPT !.pos = p2, !.ok = FALSE]
            ELSE LET i == CHOOSE i \in c : \A j \in c : i <= j IN [st EXCEPT !.pos = p2, !.files[i].ir = p2]
      [] op.k = "idx" ->
            [st EXCEPT !.pos = p2, !.ok = @ /\ Exists(st.files, op.f) /\ op.n = 16,                 \* W3
                       !.idx = Append(@, [sec |-> op.sec, e |-> p2])]
      [] op.k = "line" ->
            [st EXCEPT !.pos = p2, !.ok = @ /\ Exists(st.files, op.f),                              \* W3
                       !.lines = Append(@, [s |-> op.s, f |-> op.f, lb |-> st.pos, le |-> p2])]
      [] OTHER -> [st EXCEPT !.ok = FALSE]

RECURSIVE ApplyOps(_, _, _)
ApplyOps(st, ops, i) == IF i > Len(ops) THEN st ELSE ApplyOps(ApplyOp(st, ops[i]), ops, i + 1)

Start == [pos |-> pos, files |-> files, lines |-> <<>>, idx |-> <<>>, ok |-> TRUE]

(* ------------------------------ events -------------------------------- *)
\* creation of the writer: it creates its first file
Reset(ev) ==
    /\ ev.e = "reset"
    /\ LET st == ApplyOps([pos |-> 0, files |-> <<>>, lines |-> <<>>, idx |-> <<>>, ok |-> TRUE], ev.ops, 1) IN
       /\ st.ok /\ st.lines = <<>> /\ st.idx = <<>>
       /\ Len(st.files) >= 1 /\ Last(st.files).r = 0 /\ Last(st.files).ic > 0
       /\ pos' = st.pos /\ files' = st.files
    /\ on' = TRUE /\ maxfiles' = ev.maxfiles /\ created' = ev.t /\ latest' = ev.t
    /\ items' = <<>> /\ idxEnd' = <<>>

\* one call of write(ts, items)
Write(ev) ==
    /\ ev.e = "write" /\ on
    /\ LET st == ApplyOps(Start, ev.ops, 1)
           n == Len(ev.items)
       IN
       IF n = 0 \/ ev.t < latest
       THEN \* nothing to write / an older second: ignored, nothing is issued
            /\ ev.ops = <<>> /\ ev.ret = "ok"
            /\ UNCHANGED <<pos, files, items, idxEnd, latest>>
       ELSE /\ ev.ret = "ok" /\ st.ok
            /\ Len(st.lines) = n /\ \A i \in 1..n : st.lines[i].s = ev.items[i].s                 \* W1
            /\ Len(st.idx) <= 1 /\ (ev.t > latest => Len(st.idx) = 1)                               \* W2
            /\ Len(st.idx) = 1 => (st.idx[1].sec = ev.t /\ st.idx[1].e <= st.lines[1].lb)
            /\ pos' = st.pos /\ files' = st.files /\ latest' = ev.t
            /\ idxEnd' = IF Len(st.idx) = 1 THEN (ev.t :> st.idx[1].e) @@ idxEnd ELSE idxEnd
            /\ items' = items \o [i \in 1..n |->
                           [s |-> ev.items[i].s, sec |-> ev.t, res |-> ev.items[i].res, f |-> st.lines[i].f,
                            lb |-> st.lines[i].lb, le |-> st.lines[i].le,
                            ie |-> IF Len(st.idx) = 1 THEN st.idx[1].e
                                   ELSE IF ev.t \in DOMAIN idxEnd THEN idxEnd[ev.t] ELSE -1]]
    /\ UNCHANGED <<on, maxfiles, created>>

(* --------------------------- what is owed ------------------------------ *)
\* the log file of item it exists in the directory that holds the first k units of the stream
FileAt(it, k) == \E i \in FileIdx(files, it.f) :
                    /\ files[i].c <= it.lb /\ files[i].c <= k
                    /\ (files[i].r = 0 \/ files[i].r > k)
                    /\ (files[i].r = 0 \/ files[i].r > it.lb)
\* ... and so does its index file
IdxAt(it, k) == \E i \in FileIdx(files, it.f) :
                    /\ files[i].c <= it.lb /\ files[i].ic > 0 /\ files[i].ic <= k
                    /\ (files[i].ir = 0 \/ files[i].ir > k)
Owed(it, k) == /\ it.sec > created /\ it.le <= k /\ it.ie >= 0 /\ it.ie <= k
               /\ FileAt(it, k) /\ IdxAt(it, k)
Torn(it, k) == it.lb < k /\ k < it.le
\* may be returned: its line is at least partly there
Present(it, k) == it.lb < k /\ FileAt(it, k)

MatchTime(it, q) == /\ it.sec >= q.b \div 1000 /\ it.sec <= q.e2 \div 1000
                    /\ (q.res = "" \/ q.res = it.res)
MatchFrom(it, q) == it.sec >= q.b \div 1000

\* indices (into items) named by a result list; 0 if a serial is unknown
IndexOf(s) == IF \E i \in 1..Len(items) : items[i].s = s THEN CHOOSE i \in 1..Len(items) : items[i].s = s ELSE 0

Increasing(ix) == \A a, b \in 1..Len(ix) : a < b => ix[a] < ix[b]

\* the result of a search on the directory holding the first k units
ResultOK(q, k) ==
    LET ix == [j \in 1..Len(q.out) |-> IndexOf(q.out[j].s)]
        match(it) == IF q.kind = "time" THEN MatchTime(it, q) ELSE MatchFrom(it, q)
        owed == {i \in 1..Len(items) : Owed(items[i], k) /\ match(items[i])}
        got == {ix[j] : j \in 1..Len(ix)}
    IN
    \* an error (never a panic) instead of a result is tolerated only when nothing is owed
    /\ q.ret = "ok" \/ (q.ret = "err" /\ owed = {} /\ q.out = <<>>)
    /\ \A j \in 1..Len(ix) : /\ ix[j] > 0 /\ Present(items[ix[j]], k) /\ match(items[ix[j]])
                             \* only the torn line may be misread
                             /\ (q.out[j].x \/ Torn(items[ix[j]], k))
    /\ Increasing(ix)                                                   \* write order, no duplicates
    /\ IF q.kind = "time"
       THEN owed \subseteq got                                          \* (up to 100 000 items)
       ELSE \* a prefix of the owed items from that time on, at least min(max, available) of them;
            \* more than max only to complete the last second
            /\ \A i \in owed : i \notin got => \A g \in got : g < i
            /\ owed \subseteq got \/ Cardinality(got) >= q.max
            /\ Len(ix) > q.max =>
                 Cardinality({j \in 1..Len(ix) : items[ix[j]].sec # items[ix[Len(ix)]].sec}) < q.max

Query(ev) ==
    /\ ev.e = "q" /\ on
    /\ ResultOK(ev, pos)
    /\ UNCHANGED mvars

CrashQuery(ev) ==
    /\ ev.e = "cq" /\ on
    /\ ev.k >= 0 /\ ev.k <= pos
    /\ ResultOK(ev, ev.k)
    /\ UNCHANGED mvars

Step(ev) == Reset(ev) \/ Write(ev) \/ Query(ev) \/ CrashQuery(ev)

MLInit == /\ on = FALSE /\ maxfiles = 1 /\ created = 0 /\ latest = 0 /\ pos = 0
          /\ files = <<>> /\ items = <<>> /\ idxEnd = <<>>

(* ------------------------------ invariants ---------------------------- *)
\* retention: never more files than the limit once a file has been created, never none
FilesBounded == on => (Cardinality(Existing(files)) >= 1 /\ Cardinality(Existing(files)) <= maxfiles)
\* every item written in the newest file is owed when nothing crashed
NewestOwed == \A i \in 1..Len(items) :
                 (items[i].sec > created /\ items[i].f = Last(files).name) => Owed(items[i], pos)
=============================================================================
