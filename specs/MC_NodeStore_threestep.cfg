SPECIFICATION Spec
CONSTANTS
  N = 3
  Variant = "three-step"
  AtomicDec = TRUE
INVARIANT Atomic
CHECK_DEADLOCK FALSE
