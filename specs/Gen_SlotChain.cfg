SPECIFICATION Spec
CONSTANTS
  MaxSlots = 2
  Orders = {0, 1, 2}
  GenMode = TRUE
INVARIANT PrintCase
CHECK_DEADLOCK FALSE
