------------------------------- MODULE MC_Tower -------------------------------
EXTENDS Tower, Json
CONSTANTS GenMode, GenDepth, WithDrops
VARIABLE hist
Log(ev) == hist' = (IF GenMode THEN Append(hist, ev) ELSE <<>>)
MCInit == TowerInit /\ hist = <<>>
MCNext ==
    \/ /\ ~on
       /\ \E t \in {1, 2} : \E f \in BOOLEAN : \E r \in {"server", "client"} :
            LET ev == [e |-> "reset", T |-> t, fallback |-> f, role |-> r] IN Reset(ev) /\ Log(ev)
    \/ /\ on
       /\ \E o \in Outcomes : \E d \in (IF WithDrops THEN BOOLEAN ELSE {FALSE}) : \E leak \in BOOLEAN :
            LET ev == [e |-> "req", outcome |-> o, drop |-> d] IN Req(ev, leak) /\ Log(ev)
    \/ /\ on /\ Len(held) < 2
       /\ \E o \in {"pok", "perr"} : LET ev == [e |-> "hold", outcome |-> o] IN Hold(ev) /\ Log(ev)
    \/ /\ on /\ held # <<>>
       /\ LET ev == [e |-> "resume"] IN Resume(ev) /\ Log(ev)
    \/ /\ on /\ GenMode /\ held # <<>> /\ hist[Len(hist)].e # "adv"
       /\ \E ms \in {250, 60000, 60001} : LET ev == [e |-> "adv", ms |-> ms] IN Adv(ev) /\ Log(ev)
MCSpec == MCInit /\ [][MCNext]_<<tvars, hist>>
GenBound == Len(hist) <= GenDepth
PrintBehaviour == (GenMode /\ Len(hist) = GenDepth) => PrintT(<<"REPLAY", ToJson(hist)>>)
GoalRejected == ~(last.called = 0 /\ last.result = "fallback")
=============================================================================
