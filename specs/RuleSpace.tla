------------------------------ MODULE RuleSpace ------------------------------
(***************************************************************************)
(* C12 — valid rules are enforceable without panics; invalid input never   *)
(* poisons Sentinel.                                                       *)
(* The rule space of the five families as TLA+ sets (the full cross        *)
(* product of the enum-valued fields with boundary numerics), the validity *)
(* predicates, and what one *case* must look like:                         *)
(*   case = a rule, a loading call (all / res / append on a fresh or on a  *)
(*   populated resource), the results of a fixed set of entry shapes, and  *)
(*   a health probe of every manager afterwards.                           *)
(* NaN and the infinities are the rationals with denominator 0.            *)
(***************************************************************************)
EXTENDS Integers, Sequences, FiniteSets, TLC

\* thresholds are rationals <<num, den>>; den = 0 stands for the IEEE values the division yields:
\* <<0, 0>> = NaN, <<1, 0>> = +Inf, <<-1, 0>> = -Inf.  NaN is not negative, so validity lets it through.
Neg(x) == x[1] < 0
GtOne(x) == IF x[2] = 0 THEN x[1] > 0 ELSE x[1] > x[2]
Gt100(x) == IF x[2] = 0 THEN x[1] > 0 ELSE x[1] > 100 * x[2]
NaN == <<0, 0>>

Thresholds == {<<0, 1>>, <<1, 2>>, <<1, 1>>, <<1000000, 1>>, <<-1, 1>>, NaN}
Intervals == {0, 1, 250, 500, 1000, 1500, 600000}

FlowSpace ==
    [ id : {"x"}, res : {"r1", ""}, ref : {"", "r1b", "ghost"},
      calc : {"direct", "warmup", "mem", "custom"}, ctl : {"reject", "throttling", "custom"},
      rel : {"current", "associated"}, thr : Thresholds,
      warm : {0, 1, 3}, cold : {0, 1, 2}, maxq : {0, 500}, I : Intervals,
      lmu : {0, 100}, hmu : {0, 10, 100}, mlw : {0, 1024}, mhw : {0, 2048} ]

IsoSpace == [ id : {"x"}, res : {"r1", ""}, thr : {0, 1, 1000000, 2000000000} ]

HotSpace ==
    [ id : {"x"}, res : {"r1", ""}, metric : {"conc", "qps"}, ctl : {"reject", "throttling", "custom"},
      idx : {-3, -1, 0, 1, 3}, key : {"", "k"}, thr : {0, 1, 1000000}, maxq : {0, 500}, burst : {0, 1, 1000000},
      dur : {0, 1, 3}, cap : {0, 1}, spec : {<<>>, [a |-> 0], [a |-> 2, b |-> 1000000]} ]

CbSpace ==
    [ id : {"x"}, res : {"r1", ""}, strat : {"slow", "eratio", "ecount", "custom"}, retry : {0, 1, 1000},
      minreq : {0, 1, 1000000}, I : {0, 1, 1000, 1500}, nb : {0, 1, 2, 7}, maxrt : {0, 10},
      thr : {<<0, 1>>, <<1, 2>>, <<1, 1>>, <<2, 1>>, <<-1, 1>>, NaN} ]

SysSpace ==
    [ id : {"x"}, metric : {"load", "rt", "conc", "qps", "cpu"}, strat : {"none", "bbr"},
      thr : {<<0, 1>>, <<1, 2>>, <<1, 1>>, <<101, 1>>, <<1000000, 1>>, <<-1, 1>>, NaN} ]

Space(fam) ==
    CASE fam = "flow" -> FlowSpace [] fam = "iso" -> IsoSpace [] fam = "hot" -> HotSpace
      [] fam = "cb" -> CbSpace [] fam = "sys" -> SysSpace

U(x) == x

(* the validity predicates of the five families *)
Valid(fam, r) ==
    CASE fam = "flow" ->
            /\ r.res # "" /\ ~Neg(r.thr)
            /\ (r.rel = "associated" => r.ref # "")
            /\ (r.calc = "warmup" => r.warm > 0 /\ r.cold # 1)
            /\ (r.calc = "mem" => /\ r.mlw # 0 /\ r.mhw # 0 /\ r.hmu # 0 /\ r.lmu # 0
                                  /\ r.hmu < r.lmu /\ r.mlw < r.mhw)
      [] fam = "iso" -> r.res # "" /\ U(r.thr) > 0
      [] fam = "hot" -> r.res # "" /\ (r.metric = "qps" => r.dur > 0) /\ ~(r.idx > 0 /\ r.key # "")
      [] fam = "cb"  -> /\ r.res # "" /\ r.I > 0 /\ r.retry > 0 /\ ~Neg(r.thr)
                        /\ (r.strat # "ecount" => ~GtOne(r.thr))
      [] fam = "sys" -> /\ ~Neg(r.thr)
                        /\ (r.metric = "cpu" => ~Gt100(r.thr))
                        /\ (r.metric = "load" => ~GtOne(r.thr))

\* a valid rule is enforced if a controller / breaker can be generated for its strategy
Supported(fam, r) ==
    CASE fam = "flow" -> r.calc # "custom" /\ r.ctl # "custom"
      [] fam = "hot"  -> r.ctl # "custom"
      [] fam = "cb"   -> r.strat # "custom"
      [] OTHER -> TRUE

SeqToSet(s) == {s[i] : i \in 1..Len(s)}
Has(c, f) == f \in DOMAIN c

(* What a case must look like. *)
CaseOK(c) ==
    /\ ~Has(c, "panic") /\ ~Has(c, "panic_after")                      \* no loading call panics
    /\ Has(c, "ret") /\ Has(c, "after")
    /\ \A i \in 1..Len(c.entries) : c.entries[i].r \in {"pass", "block"} /\ c.entries[i].exit = "ok"
    /\ c.health = "ok"                                                  \* nothing is poisoned afterwards
    /\ LET r == c.rule
           listed == r.id \in SeqToSet(c.after.all)
       IN  \* load-for-resource with an empty name is an error whatever the rule; otherwise:
           IF c.op = "res" /\ c.res = "" THEN c.ret = "err" /\ ~listed
           ELSE IF c.op = "res" /\ c.fam # "sys" /\ r.res # c.res THEN ~listed
           ELSE IF Valid(c.fam, r) /\ Supported(c.fam, r) THEN listed     \* accepted => reported active
           \* accepted by the validity check, but of a Custom(_) strategy nobody registered a generator
           \* for: nothing can enforce it; whether the manager still reports it is not determined
           \* (the circuit-breaker manager does after load_rules / append_rule, the others do not)
           ELSE IF Valid(c.fam, r) THEN TRUE
           ELSE ~listed                                                   \* rejected => refused or ignored
=============================================================================
