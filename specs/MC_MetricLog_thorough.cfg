SPECIFICATION MCSpec
CONSTANTS
  GenMode = FALSE
  GenDepth = 0
  MaxWrites = 6
  MaxFilesSet = {1, 2, 3}
  MaxSizeSet = {20, 30, 1000}
  LineLen = 10
  Policy = "rollfirst"
  CheckSearch = TRUE
INVARIANTS FilesBounded NewestOwed SearchRefines
VIEW View
CHECK_DEADLOCK FALSE
