SPECIFICATION MCSpec
CONSTANTS
  GenMode = TRUE
  GenDepth = 14
  Fam = "sys"
  MaxSet = 2
CHECK_DEADLOCK FALSE
CONSTRAINT GenBound
INVARIANT PrintBehaviour
