SPECIFICATION Spec
CONSTANTS
  Fam = "flow"
  Sample = 60
INVARIANT PrintCase
CHECK_DEADLOCK FALSE
