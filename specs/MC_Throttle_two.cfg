SPECIFICATION MCSpec
CONSTANTS
  GenMode = FALSE
  GenDepth = 0
  MaxT = 2000
  DTSel = "min"
  MaxN = 2
  FlowSets <- FlowTwo
  HotSets <- HotNone
CONSTRAINT StateBound
INVARIANT BoundedQueue
CHECK_DEADLOCK FALSE
