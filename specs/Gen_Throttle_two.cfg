SPECIFICATION MCSpec
CONSTANTS
  GenMode = TRUE
  GenDepth = 6
  MaxT = 100000
  DTSel = "min"
  MaxN = 2
  FlowSets <- FlowTwo
  HotSets <- HotNone
CONSTRAINT GenBound
CHECK_DEADLOCK FALSE
INVARIANT PrintBehaviour
