SPECIFICATION MCSpec
CONSTANTS
  GenMode = FALSE
  GenDepth = 0
  MaxT = 1100
  DTSel = "min"
  ArgSel = "lru"
  MaxN = 2
  MaxSteps = 5
  RuleSets <- SetsLru
CONSTRAINT StateBound
INVARIANT Bound
INVARIANT TokensSane
INVARIANT WithinCap
INVARIANT RanksDense
CHECK_DEADLOCK FALSE
