SPECIFICATION MCSpec
CONSTANTS
  GenMode = FALSE
  GenDepth = 0
  MaxWrites = 4
  MaxFilesSet = {1, 2, 3}
  MaxSizeSet = {20, 30, 1000}
  LineLen = 10
  Policy = "old"
  CheckSearch = TRUE
INVARIANT SearchRefines
VIEW View
CHECK_DEADLOCK FALSE
