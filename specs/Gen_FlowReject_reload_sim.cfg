SPECIFICATION MCSpec
CONSTANTS
  GenMode = TRUE
  GenDepth = 16
  MaxT = 400
  MaxReloads = 3
  MaxN = 3
  MaxAdm = 100
  RuleSets <- SetsAll
CONSTRAINT GenBound
INVARIANT PrintBehaviour
CHECK_DEADLOCK FALSE
