SPECIFICATION Spec
CONSTANTS
  N = 3
  Recheck = FALSE
  Retry = 2
INVARIANTS NoEarlyProbe OneProbe
CHECK_DEADLOCK FALSE
