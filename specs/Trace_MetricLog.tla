--------------------------- MODULE Trace_MetricLog ---------------------------
(* Trace validation for MetricLog (C19): the writer's recorded operation stream and every search
   result on the live directory and on every examined crash prefix. *)
EXTENDS MetricLog, Json, IOUtils

Rec == ndJsonDeserialize(IOEnv.TRACE)
VARIABLE l
tvars == <<mvars, l>>

TraceInit == MLInit /\ l = 1
TraceNext ==
    /\ l <= Len(Rec)
    /\ l' = l + 1
    /\ LET ev == Rec[l] IN
       CASE ev.e = "reset" -> ev.ok /\ Reset(ev)
         [] ev.e = "write" -> Write(ev)
         [] ev.e = "q"     -> Query(ev)
         [] ev.e = "cq"    -> CrashQuery(ev)
         [] OTHER -> FALSE
TraceSpec == TraceInit /\ [][TraceNext]_tvars

TraceAccepted ==
    LET d == TLCGet("stats").diameter IN
    IF d - 1 = Len(Rec) THEN TRUE
    ELSE /\ PrintT(<<"TRACE_REJECTED", d, Len(Rec), ToJson(Rec[d])>>)
         /\ FALSE
=============================================================================
