-------------------------- MODULE Trace_HotspotQps --------------------------
EXTENDS HotspotQps, Json, IOUtils

Rec == ndJsonDeserialize(IOEnv.TRACE)
VARIABLE l
tvars == <<hvars, l>>
Has(ev, f) == f \in DOMAIN ev

EnterOK(ev) ==
    LET v == Verdict(ev) IN
    IF v.pass
    THEN ev.r = "pass" \/ (foreign /\ ev.r = "block" /\ ev.bt \in {"flow", "isolation", "system", "cb", "hotspot"})
    ELSE /\ ev.r = "block"
         \* the reported rule is the rejecting one: named by its id, or by the description its controller
         \* was built from (an equal rule reloaded under another id keeps its controller and first id)
         /\ \/ ev.bt = "hotspot" /\ (ev.rule = v.rule \/ (Has(ev, "rule_rec") /\ SameRule(ev.rule_rec, Rule(v.rule))))
            \/ foreign /\ ev.bt \in {"cb", "hotspot"}

TraceInit == HotInit /\ l = 1
TraceNext ==
    /\ l <= Len(Rec)
    /\ l' = l + 1
    /\ LET ev == Rec[l] IN
       CASE ev.e = "reset" -> ev.ok /\ Reset(ev)
         [] ev.e = "load"  -> Has(ev, "ret") /\ (LoadHot(ev) \/ LoadOther(ev))
         [] ev.e = "enter" -> EnterOK(ev) /\ Enter(ev)
         [] ev.e \in {"exit", "adv"} -> ~Has(ev, "panic") /\ Other(ev)
         [] OTHER -> FALSE
TraceSpec == TraceInit /\ [][TraceNext]_tvars

TraceAccepted ==
    LET d == TLCGet("stats").diameter IN
    IF d - 1 = Len(Rec) THEN TRUE
    ELSE /\ PrintT(<<"TRACE_REJECTED", d, Len(Rec), ToJson(Rec[d])>>)
         /\ FALSE
=============================================================================
