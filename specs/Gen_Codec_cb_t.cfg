SPECIFICATION Spec
CONSTANTS
  Fam = "cb"
  Sample = 1500
INVARIANT PrintCase
CHECK_DEADLOCK FALSE
