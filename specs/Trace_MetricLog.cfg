SPECIFICATION TraceSpec
POSTCONDITION TraceAccepted
INVARIANT FilesBounded
CHECK_DEADLOCK FALSE
