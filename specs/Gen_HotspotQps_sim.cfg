SPECIFICATION MCSpec
CONSTANTS
  GenMode = TRUE
  GenDepth = 18
  MaxT = 100000
  MaxN = 3
  MaxSteps = 100
  DTSel = "full"
  ArgSel = "full"
  RuleSets <- SetsAll
CONSTRAINT GenBound
INVARIANT PrintBehaviour
CHECK_DEADLOCK FALSE
