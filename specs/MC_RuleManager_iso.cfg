SPECIFICATION MCSpec
CONSTANTS
  GenMode = FALSE
  GenDepth = 0
  Fam = "iso"
  MaxSet = 3
INVARIANT OnlyValid
INVARIANT AllRepresented
CHECK_DEADLOCK FALSE
