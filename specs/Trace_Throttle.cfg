SPECIFICATION TraceSpec
INVARIANT BoundedQueue
POSTCONDITION TraceAccepted
CHECK_DEADLOCK FALSE
