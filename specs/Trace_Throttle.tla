---------------------------- MODULE Trace_Throttle ----------------------------
EXTENDS Throttle, Json, IOUtils

Rec == ndJsonDeserialize(IOEnv.TRACE)
VARIABLE l
trvars == <<tvars, l>>
Has(ev, f) == f \in DOMAIN ev

\* observed hold of the caller: virtual clock after build() minus before, as a pair
Held(ev) == <<ev.dtms, ev.dtsub>>
OneNs == <<0, 1>>

\* ReallyDelayed: the caller is held at least until its scheduled instant (1 ns rounding slack);
\* decision and block type as prescribed
EnterOK(ev, fo, ho) ==
    /\ IF Blocked(fo, ho)
       THEN ev.r = "block" /\ ev.bt = BlockType(fo, ho)
       ELSE ev.r = "pass"
    /\ LET owed == Add(fo.wait, Ms(ho.wait)) IN Leq(owed, Add(Held(ev), OneNs))

TraceInit == ThrottleInit /\ l = 1
TraceNext ==
    /\ l <= Len(Rec)
    /\ l' = l + 1
    /\ LET ev == Rec[l] IN
       CASE ev.e = "reset" -> ev.ok /\ Reset(ev)
         [] ev.e = "load"  -> Has(ev, "ret") /\ (LoadFlow(ev) \/ \E inh \in BOOLEAN : LoadHot(ev, inh))
         [] ev.e = "enter" -> \E fo \in FlowStage(ev) : \E ho \in HotStage(ev, Add(Tm(ev), fo.wait)) :
                                 EnterOK(ev, fo, ho) /\ Enter(ev, fo, ho)
         [] ev.e \in {"exit", "adv"} -> ~Has(ev, "panic") /\ Other(ev)
         [] OTHER -> FALSE
TraceSpec == TraceInit /\ [][TraceNext]_trvars

TraceAccepted ==
    LET d == TLCGet("stats").diameter IN
    IF d - 1 = Len(Rec) THEN TRUE
    ELSE /\ PrintT(<<"TRACE_REJECTED", d, Len(Rec), ToJson(Rec[d])>>)
         /\ FALSE
=============================================================================
