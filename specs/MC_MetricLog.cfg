SPECIFICATION MCSpec
CONSTANTS
  GenMode = FALSE
  GenDepth = 0
  MaxWrites = 4
  MaxFilesSet = {1, 2}
  MaxSizeSet = {20, 1000}
  LineLen = 10
  Policy = "rollfirst"
  CheckSearch = TRUE
INVARIANTS FilesBounded NewestOwed SearchRefines
VIEW View
CHECK_DEADLOCK FALSE
