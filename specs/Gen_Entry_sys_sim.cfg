SPECIFICATION MCSpec
CONSTANTS
  GenMode = TRUE
  GenDepth = 20
  MaxT = 60000
  MaxEnters = 20
  MaxOpen = 5
  MaxN = 1
  IsoSets <- IsoNone
  HotSets <- HotNone
  Inbounds <- BothB
  Ress <- R1
  ArgC <- NoArgs
  AttC <- NoArgs
  SysSets <- SysSetsSmall
  LoadVals <- LoadValsSmall
  DTMode = "full"
CONSTRAINT GenBound
CHECK_DEADLOCK FALSE
INVARIANT PrintBehaviour
