SPECIFICATION MCSpec
CONSTANTS
  Geos <- GeosMC
  MCKinds <- KindsAll
  MaxC = 3
  MaxTotal = 1000
  MaxSpan = 50
  GenMode = TRUE
  GenDepth = 14
CONSTRAINT GenBound
INVARIANT PrintBehaviour
CHECK_DEADLOCK FALSE
