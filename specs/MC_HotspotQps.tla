--------------------------- MODULE MC_HotspotQps ---------------------------
EXTENDS HotspotQps, Json

CONSTANTS GenMode, GenDepth, MaxT, MaxN, RuleSets, MaxSteps, DTSel, ArgSel

VARIABLES hist, cnt, evicted    \* evicted: ghost, some value lost its bucket to the LRU replacement
mcvars == <<hvars, hist, cnt, evicted>>

HR(id, idx, key, thr, burst, dur, spec) ==
    [id |-> id, res |-> "r1", metric |-> "qps", ctl |-> "reject", idx |-> idx, key |-> key, thr |-> thr,
     burst |-> burst, dur |-> dur, spec |-> spec, cap |-> 0, maxq |-> 0]

Singles == { <<HR("h1", 0, "", q, b, 1, sp)>> : q \in 0..3, b \in 0..2, sp \in {<<>>, ("b" :> 1), ("a" :> 0)} }
Pairs == { <<HR("h1", 0, "", 2, 0, 1, <<>>), HR("h2", 1, "", 1, 1, 1, <<>>)>>,
           <<HR("h1", -1, "", 1, 1, 1, <<>>), HR("h2", 0, "k", 2, 0, 2, <<>>)>> }
SetsSmall == { <<HR("h1", 0, "", 2, 1, 1, ("b" :> 1))>>, <<HR("h1", 0, "", 1, 0, 1, <<>>)>>,
               <<HR("h1", 0, "", 3, 2, 2, <<>>)>> } \cup Pairs
SetsAll == Singles \cup Pairs
\* beyond the listed property: more distinct values than the rule's capacity (least-recently-used replacement)
HRc(id, idx, thr, burst, dur, cap) == [HR(id, idx, "", thr, burst, dur, <<>>) EXCEPT !.cap = cap]
SetsLru == { <<HRc("h1", 0, q, b, 1, c)>> : q \in 1..2, b \in 0..1, c \in 1..2 } \cup
           { <<HRc("h1", 0, 1, 1, 1, 2), HRc("h2", 1, 2, 0, 1, 1)>> }

ArgSets == { <<"a">>, <<"b">>, <<"a", "b">> }
DTs == IF DTSel = "min" THEN {0, 1000, 1001} ELSE {0, 1, 999, 1000, 1001, 2001}
ArgSetsC == IF ArgSel = "min" THEN { <<"a">>, <<"a", "b">> }
            ELSE IF ArgSel = "lru" THEN { <<"a">>, <<"b">>, <<"c">>, <<"a", "c">>, <<"c", "b">> } ELSE ArgSets

EnterEvents ==
    {[e |-> "enter", id |-> Len(hist), res |-> "r1", n |-> n, args |-> a, t |-> now + dt] :
        n \in 1..MaxN, a \in ArgSetsC, dt \in DTs}

Log(ev) == hist' = (IF GenMode THEN Append(hist, ev) ELSE <<>>)

MCInit == HotInit /\ hist = <<>> /\ cnt = 0 /\ evicted = FALSE
MCNext ==
    \/ /\ ~on
       /\ LET ev == [e |-> "reset", t |-> 0, obs |-> 0] IN Reset(ev) /\ Log(ev) /\ cnt' = 1
       /\ UNCHANGED evicted
    \/ /\ on /\ cnt = 1
       /\ \E rs \in RuleSets : LET ev == [e |-> "load", fam |-> "hot", op |-> "all", t |-> now, rules |-> rs] IN
             LoadHot(ev) /\ Log(ev) /\ cnt' = 2
       /\ UNCHANGED evicted
    \/ /\ on /\ cnt = 2
       /\ \E ev \in EnterEvents : Enter(ev) /\ Log(ev) /\ cnt' = 2
       /\ evicted' = (evicted \/ \E id \in DOMAIN bk : DOMAIN bk[id] \ DOMAIN bk'[id] # {})
MCSpec == MCInit /\ [][MCNext]_mcvars

StateBound == now <= MaxT
GenBound == Len(hist) <= GenDepth /\ now <= MaxT
PrintBehaviour == (GenMode /\ Len(hist) = GenDepth) => PrintT(<<"REPLAY", ToJson(hist)>>)

GoalRefill == ~(\E id \in DOMAIN bk : \E v \in DOMAIN bk[id] : bk[id][v].last > bk[id][v].first)
GoalTwoValues == ~(\E id \in DOMAIN bk : Cardinality(DOMAIN bk[id]) >= 2)
\* LRU replacement: the caches never hold more than the capacity; a value that comes back after its
\* eviction starts with a full bucket (first = now)
WithinCap == \A r \in hot : Cardinality(DOMAIN bk[r.id]) <= CapOf(r)
RanksDense == \A r \in hot : {bk[r.id][v].used : v \in DOMAIN bk[r.id]} = 1..Cardinality(DOMAIN bk[r.id])
GoalEvicted == ~evicted
GoalEvictedBack == ~(evicted /\ \E id \in DOMAIN bk : \E v \in DOMAIN bk[id] :
                        bk[id][v].first = now /\ now > 0 /\ bk[id][v].used = Cardinality(DOMAIN bk[id]) /\ bk[id][v].admitted = 1
                        /\ Cardinality(DOMAIN bk[id]) = 2)
GoalExhausted == ~(\E id \in DOMAIN bk : \E v \in DOMAIN bk[id] : bk[id][v].tokens = 0 /\ bk[id][v].admitted >= 3)
=============================================================================
