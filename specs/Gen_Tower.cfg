SPECIFICATION MCSpec
CONSTANTS
  GenMode = TRUE
  GenDepth = 6
  WithDrops = FALSE
CONSTRAINT GenBound
INVARIANT PrintBehaviour
CHECK_DEADLOCK FALSE
