SPECIFICATION TraceSpec
INVARIANT TokensSane
POSTCONDITION TraceAccepted
CHECK_DEADLOCK FALSE
