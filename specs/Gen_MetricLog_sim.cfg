SPECIFICATION MCSpec
CONSTANTS
  GenMode = TRUE
  GenDepth = 8
  MaxWrites = 20
  MaxFilesSet = {1, 2, 3, 4}
  MaxSizeSet = {20, 30, 50, 1000}
  LineLen = 10
  Policy = "rollfirst"
  CheckSearch = FALSE
CONSTRAINT GenBound
INVARIANT PrintBehaviour
CHECK_DEADLOCK FALSE
