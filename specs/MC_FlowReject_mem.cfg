SPECIFICATION MCSpec
CONSTANTS
  GenMode = FALSE
  GenDepth = 0
  MaxT = 13
  MaxAdm = 3
  MaxReloads = 0
  MaxN = 2
  RuleSets <- SetsMem
CONSTRAINT StateBound
INVARIANT NoOverAdmission
CHECK_DEADLOCK FALSE
