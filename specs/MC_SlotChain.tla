---------------------------- MODULE MC_SlotChain ----------------------------
(* Enumerates chain shapes (the case space of C13) and checks that the contract accepts what a   *)
(* reference chain produces: sort each kind stably by order value, run all, notify accordingly.  *)
EXTENDS SlotChain, Json, SequencesExt

CONSTANTS MaxSlots, Orders, GenMode

VARIABLES case, done
vars == <<case, done>>

PreNames == <<"p1", "p2", "p3", "p4">>
ChkNames == <<"c1", "c2", "c3", "c4">>
StNames  == <<"s1", "s2", "s3", "s4">>

Slots(names, n) == {[i \in 1..n |-> [name |-> names[i], order |-> f[i]]] : f \in [1..n -> Orders]}
ChkSlots(n) == {[i \in 1..n |-> [name |-> ChkNames[i], order |-> f[i], res |-> g[i], bt |-> i]] :
                   f \in [1..n -> Orders], g \in [1..n -> {"pass", "wait", "block"}]}

Cases == {[pre |-> p, chk |-> c, st |-> s] :
             p \in UNION {Slots(PreNames, n) : n \in 0..MaxSlots},
             c \in UNION {ChkSlots(n) : n \in 0..MaxSlots},
             s \in UNION {Slots(StNames, n) : n \in 0..MaxSlots}}

\* reference execution: any listing sorted by order value
RefListings(s) == {p \in [1..Len(s) -> Names(s)] : SortedListing(p, s)}

RefRuns(c) ==
    {[pre |-> c.pre, chk |-> c.chk, st |-> c.st,
      log |-> [i \in 1..Len(a) |-> [k |-> "prepare", name |-> a[i]]]
              \o [i \in 1..Len(b) |-> [k |-> "check", name |-> b[i]]]
              \o [i \in 1..Len(d) |-> IF IsBlocked(c) THEN [k |-> "blocked", name |-> d[i], err |-> e]
                                       ELSE [k |-> "pass", name |-> d[i]]],
      build |-> IF IsBlocked(c) THEN "err" ELSE "ok",
      err |-> e,
      exitlog |-> IF IsBlocked(c) THEN <<>> ELSE [i \in 1..Len(x) |-> [k |-> "completed", name |-> x[i]]]] :
        a \in RefListings(c.pre), b \in RefListings(c.chk), d \in RefListings(c.st), x \in RefListings(c.st),
        e \in (IF IsBlocked(c) THEN Blockers(c) ELSE {"none"})}

Init == case = <<>> /\ done = FALSE
Next == /\ ~done /\ case' \in Cases /\ done' = TRUE
Spec == Init /\ [][Next]_vars

\* the contract accepts every reference run, and rejects a run whose completion is delivered twice
RefAccepted == done => \A r \in RefRuns(case) : CaseOK(r)
PrintCase == (GenMode /\ done) => PrintT(<<"REPLAY", ToJson(<<case>>)>>)
=============================================================================
