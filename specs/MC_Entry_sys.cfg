SPECIFICATION MCSpec
CONSTANTS
  GenMode = FALSE
  GenDepth = 0
  MaxT = 2000
  MaxEnters = 3
  MaxOpen = 3
  MaxN = 1
  IsoSets <- IsoNone
  HotSets <- HotNone
  Inbounds <- BothB
  Ress <- R1
  ArgC <- NoArgs
  AttC <- NoArgs
  SysSets <- SysSetsSmall
  LoadVals <- LoadValsSmall
  DTMode = "mid"
CONSTRAINT StateBound
INVARIANT InflightExact
CHECK_DEADLOCK FALSE
