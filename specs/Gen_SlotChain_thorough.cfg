SPECIFICATION Spec
CONSTANTS
  MaxSlots = 3
  Orders = {0, 1}
  GenMode = TRUE
INVARIANT PrintCase
CHECK_DEADLOCK FALSE
