SPECIFICATION MCSpec
CONSTANTS
  GenMode = TRUE
  GenDepth = 5
  MaxT = 21000
  MaxEnters = 20
  MaxOpen = 3
  MaxN = 2
  IsoSets <- IsoNone
  HotSets <- HotSetsSmall
  Inbounds <- OnlyOut
  Ress <- R1
  ArgC <- Args3
  AttC <- AttSets
  SysSets <- SysNone
  LoadVals <- NoVals
  DTMode = "min"
CONSTRAINT GenBound
CHECK_DEADLOCK FALSE
INVARIANT PrintBehaviour
