SPECIFICATION MCSpec
CONSTANTS
  GenMode = TRUE
  GenDepth = 7
  WithDrops = FALSE
CONSTRAINT GenBound
INVARIANT PrintBehaviour
CHECK_DEADLOCK FALSE
