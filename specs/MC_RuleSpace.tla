----------------------------- MODULE MC_RuleSpace -----------------------------
(* Enumerates (or samples) the case space of C12 and prints each case for the harness. *)
EXTENDS RuleSpace, Json, Randomization

CONSTANTS Fam, Sample      \* Sample = 0: the whole space; k > 0: a random subset of k rules

VARIABLES case, done
vars == <<case, done>>

Ops == IF Fam = "sys" THEN {"all", "append", "appendpop"} ELSE {"all", "res", "append", "appendpop", "resempty"}
Rules == IF Sample = 0 THEN Space(Fam) ELSE RandomSubset(Sample, Space(Fam))

Init == case = <<>> /\ done = FALSE
Next == /\ ~done /\ done' = TRUE
        /\ \E r \in Rules : \E o \in Ops :
             case' = [fam |-> Fam, op |-> IF o = "resempty" THEN "res" ELSE IF o = "appendpop" THEN "append" ELSE o,
                      populated |-> (o = "appendpop"),
                      res |-> IF o = "resempty" THEN "" ELSE IF Fam = "sys" THEN "" ELSE "r1", rule |-> r]
Spec == Init /\ [][Next]_vars
PrintCase == done => PrintT(<<"REPLAY", ToJson(<<case>>)>>)
\* the validity predicate splits the space (both sides are populated)
GoalValid == ~(done /\ Valid(Fam, case.rule))
GoalInvalid == ~(done /\ ~Valid(Fam, case.rule))
=============================================================================
