-------------------------------- MODULE Tower --------------------------------
(***************************************************************************)
(* C20 — the Tower middleware calls the inner service iff Sentinel admits  *)
(* the request and always releases the admission.                          *)
(* Admission is decided by an isolation rule of threshold T on the         *)
(* extracted resource (so a leaked admission becomes a visible rejection). *)
(* A request's inner future ends in one of {ok, err, pok, perr} (p =       *)
(* pending once first); the caller may also drop the future before         *)
(* completion - explored and reported, but then no release is owed.        *)
(***************************************************************************)
EXTENDS Integers, Sequences, TLC

VARIABLES on, T, fb, role, inflight, last,
    held      \* outcomes of the requests whose inner call is still pending (oldest first): they stay admitted
tvars == <<on, T, fb, role, inflight, last, held>>

Outcomes == {"ok", "err", "pok", "perr"}

Reset(ev) ==
    /\ ev.e = "reset"
    /\ on' = TRUE /\ T' = ev.T /\ fb' = ev.fallback /\ role' = ev.role /\ inflight' = 0
    /\ last' = [called |-> 0, result |-> "none"] /\ held' = <<>>

\* leak: only for a dropped future - whether the admission is still held afterwards
Req(ev, leak) ==
    /\ ev.e = "req" /\ on
    /\ LET admitted == inflight + 1 <= T IN
       IF ~admitted
       THEN /\ last' = [called |-> 0, result |-> IF ev.drop THEN "dropped" ELSE IF fb THEN "fallback" ELSE "err"]
            /\ inflight' = inflight /\ ~leak
       ELSE IF ev.drop
       THEN /\ last' = [called |-> 1, result |-> "dropped"]
            /\ inflight' = IF leak THEN inflight + 1 ELSE inflight
       ELSE /\ last' = [called |-> 1, result |-> IF ev.outcome \in {"ok", "pok"} THEN "ok" ELSE "err"]
            /\ inflight' = inflight /\ ~leak            \* released, with a response or with an error
    /\ UNCHANGED <<on, T, fb, role, held>>

\* a request whose inner future is pending is polled once and left in flight: it keeps its admission, so a
\* request arriving meanwhile is decided against it
Hold(ev) ==
    /\ ev.e = "hold" /\ on /\ ev.outcome \in {"pok", "perr"}
    /\ IF inflight + 1 <= T
       THEN /\ last' = [called |-> 1, result |-> "pending"]
            /\ inflight' = inflight + 1 /\ held' = Append(held, ev.outcome)
       ELSE /\ last' = [called |-> 0, result |-> IF fb THEN "fallback" ELSE "err"]
            /\ UNCHANGED <<inflight, held>>
    /\ UNCHANGED <<on, T, fb, role>>

\* the oldest pending request is polled to completion: response or error, admission released
Resume(ev) ==
    /\ ev.e = "resume" /\ on
    /\ IF held # <<>>
       THEN /\ last' = [called |-> 0, result |-> IF Head(held) = "pok" THEN "ok" ELSE "err"]
            /\ inflight' = inflight - 1 /\ held' = Tail(held)
       ELSE /\ last' = [called |-> 0, result |-> "nothing"] /\ UNCHANGED <<inflight, held>>
    /\ UNCHANGED <<on, T, fb, role>>

\* time passes (however long the inner call takes, the admission is released when it finishes)
Adv(ev) == ev.e = "adv" /\ on /\ UNCHANGED tvars

TowerInit == on = FALSE /\ T = 1 /\ fb = FALSE /\ role = "server" /\ inflight = 0 /\ last = [called |-> 0, result |-> "none"] /\ held = <<>>

\* the inner service is called exactly once iff the request was admitted
CalledIffAdmitted == last.called \in {0, 1} /\ (last.result \in {"fallback"} => last.called = 0)
NeverOver == inflight <= T
=============================================================================
