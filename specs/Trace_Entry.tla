----------------------------- MODULE Trace_Entry -----------------------------
(* Trace validation for Entry (C04 accounting, C05 caps and block reporting). *)
EXTENDS Entry, Json, IOUtils

Rec == ndJsonDeserialize(IOEnv.TRACE)

VARIABLE l
tvars == <<evars, l>>

Has(ev, f) == f \in DOMAIN ev

\* the logged decision must be the outcome o
DecisionOK(ev, o) ==
    IF o.pass THEN ev.r = "pass"
    ELSE /\ ev.r = "block"
         /\ IF o.bt = "foreign" THEN ev.bt \in {"flow", "cb", "system", "hotspot"}
            ELSE /\ ev.bt = o.bt /\ ev.rule \in o.rules
                 /\ o.bt = "system" => LET r == CHOOSE x \in sys : x.id = ev.rule IN
                                         Has(ev, "snap") /\ SysSnapOK(r, ev.t, ev.snap)

\* a logged node reading o against the node nd of the specification, read at time t
\* (index 4 = error events: nothing in Sentinel records them and the property does not mention them)
ReadingOK(o, nd, t) ==
    LET rd == NodeReading(nd, t) IN
    /\ \A i \in {1, 2, 3, 5} : o.sum[i] = rd.sum[i]
    /\ o.conc = rd.conc
    /\ o.minrt = rd.minrt
    /\ o.avgc = IF rd.sum[3] = 0 THEN 0 ELSE rd.sum[5]

EmptyNode == [g |-> <<>>, conc |-> 0]
NodeOf(ns, name) == IF name \in DOMAIN ns THEN ns[name] ELSE EmptyNode

\* readings logged after the event, judged in the state after the event
ReadingsOK(ev) ==
    /\ Has(ev, "nodes") /\ ~Has(ev, "panic_obs")
    /\ \A name \in DOMAIN ev.nodes : ReadingOK(ev.nodes[name], NodeOf(nodes', name), now')
    /\ \A name \in DOMAIN nodes' \ {INB} : name \in DOMAIN ev.nodes
    /\ Has(ev, "inb") => ReadingOK(ev.inb, NodeOf(nodes', INB), now')

TraceInit == EntryInit /\ l = 1
TraceNext ==
    /\ l <= Len(Rec)
    /\ l' = l + 1
    /\ LET ev == Rec[l] IN
       CASE ev.e = "reset" -> ev.ok /\ Reset(ev)
         [] ev.e = "load"  -> Has(ev, "ret") /\ Load(ev) /\ ReadingsOK(ev)
         [] ev.e = "enter" -> /\ \E o \in Outcomes(ev) : DecisionOK(ev, o) /\ Enter(ev, o)
                              /\ ReadingsOK(ev)
         [] ev.e = "exit"  -> ~Has(ev, "panic") /\ Exit(ev) /\ ReadingsOK(ev)
         [] ev.e \in {"adv", "sysload", "syscpu"} -> Adv(ev) /\ ReadingsOK(ev)
         [] OTHER -> FALSE
TraceSpec == TraceInit /\ [][TraceNext]_tvars

TraceAccepted ==
    LET d == TLCGet("stats").diameter IN
    IF d - 1 = Len(Rec) THEN TRUE
    ELSE /\ PrintT(<<"TRACE_REJECTED", d, Len(Rec), ToJson(Rec[d])>>)
         /\ FALSE
=============================================================================
