SPECIFICATION MCSpec
CONSTANTS
  GenMode = TRUE
  GenDepth = 24
  MaxT = 100000
  MaxC = 1000
  MaxOpen = 3
  RuleSets <- SetsAll
  WithIso = TRUE
CONSTRAINT GenBound
CHECK_DEADLOCK FALSE
INVARIANT PrintBehaviour
