----------------------------- MODULE SlotChain -----------------------------
(***************************************************************************)
(* C13 — slot chain contract.  A case is a chain description              *)
(*   pre : sequence of [name, order]            (preparation slots, as added)*)
(*   chk : sequence of [name, order, res, bt]   (res in pass / wait / block) *)
(*   st  : sequence of [name, order]            (statistic slots)            *)
(* and an observed run: the call log of entry, the result of build(), the   *)
(* error delivered, the call log of exit.  CaseOK says whether the          *)
(* observation is one the contract allows (slots of equal order value may   *)
(* run in either order; with several blocking slots any of their errors may *)
(* be the one delivered).                                                   *)
(***************************************************************************)
EXTENDS Integers, Sequences, FiniteSets, TLC

SeqToSet(s) == {s[i] : i \in 1..Len(s)}
Names(s) == {s[i].name : i \in 1..Len(s)}
OrderOfName(s, n) == (CHOOSE i \in 1..Len(s) : s[i].name = n)
Ord(s, n) == s[OrderOfName(s, n)].order

\* names is a listing of all slots of s, each once, in ascending order value
SortedListing(names, s) ==
    /\ Len(names) = Len(s)
    /\ SeqToSet(names) = Names(s)
    /\ \A i \in 1..(Len(names) - 1) : Ord(s, names[i]) <= Ord(s, names[i + 1])

Blockers(c) == {c.chk[i].name : i \in {j \in 1..Len(c.chk) : c.chk[j].res = "block"}}
IsBlocked(c) == Blockers(c) # {}

\* the entry log: [k, name] records with k in prepare / check / pass / blocked (+ err for blocked)
Kind(lg, k) == SelectSeq(lg, LAMBDA x : x.k = k)
NamesOf(lg) == [i \in 1..Len(lg) |-> lg[i].name]

EntryLogOK(c, lg) ==
    LET np == Len(c.pre)
        nc == Len(c.chk)
        ns == Len(c.st)
    IN  /\ Len(lg) = np + nc + ns
        \* phases in order: every preparation slot, then every check slot, then every statistic slot
        /\ \A i \in 1..np : lg[i].k = "prepare"
        /\ \A i \in (np + 1)..(np + nc) : lg[i].k = "check"
        /\ \A i \in (np + nc + 1)..(np + nc + ns) : lg[i].k \in {"pass", "blocked"}
        /\ SortedListing(NamesOf(SubSeq(lg, 1, np)), c.pre)
        /\ SortedListing(NamesOf(SubSeq(lg, np + 1, np + nc)), c.chk)
        /\ SortedListing(NamesOf(SubSeq(lg, np + nc + 1, np + nc + ns)), c.st)
        \* each statistic slot gets exactly one notification, of the right kind, with a blocker's error
        /\ \A i \in (np + nc + 1)..(np + nc + ns) :
              IF IsBlocked(c) THEN lg[i].k = "blocked" /\ lg[i].err \in Blockers(c)
              ELSE lg[i].k = "pass"

ExitLogOK(c, lg) ==
    IF IsBlocked(c) THEN lg = <<>>                        \* no completion for a blocked entry
    ELSE /\ \A i \in 1..Len(lg) : lg[i].k = "completed"
         /\ SortedListing(NamesOf(lg), c.st)              \* each statistic slot exactly once

CaseOK(c) ==
    /\ ~("panic" \in DOMAIN c)
    /\ EntryLogOK(c, c.log)
    /\ c.build = (IF IsBlocked(c) THEN "err" ELSE "ok")
    /\ IsBlocked(c) => c.err \in Blockers(c)
    /\ ExitLogOK(c, c.exitlog)
=============================================================================
