-------------------------------- MODULE Codec --------------------------------
(***************************************************************************)
(* C18 — rules and metric lines survive serialisation round trips.         *)
(*                                                                         *)
(* A rule is the record of its descriptor (the rule space of RuleSpace).   *)
(* Its JSON document is the function field -> value; a *case* serialises   *)
(* the rule, edits the document (drops fields, gives one field a value of  *)
(* the wrong type, reverses the field order) and hands the text to the     *)
(* datasource parser.  What must come back:                                *)
(*   - a rule with a Custom(_) strategy cannot be serialised (the variant  *)
(*     is skipped by design): serialisation reports an error, no panic;    *)
(*   - a document with a wrong-typed field is reported as an error;        *)
(*   - otherwise the parsed rule has, field by field, the value in the     *)
(*     document or the documented default for a dropped field (a dropped   *)
(*     id is regenerated: any value), and the untouched round trip yields  *)
(*     a rule equal to the original;                                       *)
(*   - NaN has no JSON form (it is written as null): such a document may   *)
(*     be rejected.                                                        *)
(* Metric lines: an item written as a line parses back to the same item,   *)
(* the resource name being altered only by the separator replacement.      *)
(***************************************************************************)
EXTENDS RuleSpace

Default(fam) ==
    CASE fam = "flow" -> [id |-> "", res |-> "", ref |-> "", calc |-> "direct", ctl |-> "reject", rel |-> "current",
                          thr |-> <<0, 1>>, warm |-> 0, cold |-> 0, maxq |-> 0, I |-> 0, lmu |-> 0, hmu |-> 0, mlw |-> 0, mhw |-> 0]
      [] fam = "iso"  -> [id |-> "", res |-> "", thr |-> 0]
      [] fam = "hot"  -> [id |-> "", res |-> "", metric |-> "conc", ctl |-> "reject", idx |-> 0, key |-> "", thr |-> 0,
                          maxq |-> 0, burst |-> 0, dur |-> 0, cap |-> 0, spec |-> <<>>]
      [] fam = "cb"   -> [id |-> "", res |-> "", strat |-> "slow", retry |-> 0, minreq |-> 0, I |-> 0, nb |-> 0, maxrt |-> 0,
                          thr |-> <<0, 1>>]
      [] fam = "sys"  -> [id |-> "", metric |-> "load", thr |-> <<0, 1>>, strat |-> "none"]

Fields(fam) == DOMAIN Default(fam)
Serialisable(fam, r) == Supported(fam, r)                      \* no Custom(_) strategy
RatThr(fam) == fam \in {"flow", "cb", "sys"}                   \* families whose threshold is a float (a rational here)
HasNaN(fam, r) == RatThr(fam) /\ r.thr[2] = 0

\* the rule the parser must deliver for the edited document
Expected(c) == [f \in Fields(c.fam) |-> IF f \in SeqToSet(c.drop) THEN Default(c.fam)[f] ELSE c.rule[f]]

\* float thresholds compare as rationals, everything else literally
SameVal(fam, f, a, b) ==
    IF f = "thr" /\ RatThr(fam)
    THEN (a[2] = 0 /\ b[2] = 0 /\ a[1] = b[1]) \/ (a[2] # 0 /\ b[2] # 0 /\ a[1] * b[2] = b[1] * a[2])
    ELSE a = b

RuleCaseOK(c) ==
    /\ ~Has(c, "panic")
    /\ IF ~Serialisable(c.fam, c.rule) THEN c.ser = "err"
       ELSE /\ c.ser = "ok"
            /\ IF c.wrong # "" THEN c.parse = "err"
               ELSE IF HasNaN(c.fam, c.rule) /\ "thr" \notin SeqToSet(c.drop) THEN c.parse \in {"err", "ok"}
               ELSE /\ c.parse = "ok"
                    /\ \A f \in Fields(c.fam) :
                          (f = "id" /\ "id" \in SeqToSet(c.drop)) \/ SameVal(c.fam, f, c.got[f], Expected(c)[f])
                    \* the untouched (or merely re-ordered) document gives back an equal rule, and it
                    \* serialises to the same document again
                    /\ c.drop = <<>> => (c.eq /\ c.again)

\* metric lines: c.item = the fields written; c.back = the fields read back; c.sep = the name contained the separator
LineCaseOK(c) ==
    /\ ~Has(c, "panic")
    /\ c.parse = "ok"
    /\ \A f \in DOMAIN c.item : f # "res" => c.back[f] = c.item[f]
    /\ c.back.res = c.expres                 \* the name with every separator replaced (computed from the input)

CaseOK2(c) == IF c.kind = "rule" THEN RuleCaseOK(c) ELSE LineCaseOK(c)
=============================================================================
