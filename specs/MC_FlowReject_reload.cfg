SPECIFICATION MCSpec
CONSTANTS
  GenMode = FALSE
  GenDepth = 0
  MaxT = 9
  MaxAdm = 3
  MaxReloads = 1
  MaxN = 2
  RuleSets <- SetsSmall
CONSTRAINT StateBound
INVARIANT NoOverAdmission
CHECK_DEADLOCK FALSE
