SPECIFICATION MCSpec
CONSTANTS
  GenMode = FALSE
  GenDepth = 0
  MaxT = 2000
  MaxEnters = 3
  MaxOpen = 3
  MaxN = 2
  IsoSets <- IsoSetsSmall
  HotSets <- HotNone
  Inbounds <- BothB
  Ress <- R12
  ArgC <- NoArgs
  AttC <- NoArgs
  SysSets <- SysNone
  LoadVals <- NoVals
  DTMode = "mid"
CONSTRAINT StateBound
INVARIANT InflightExact
INVARIANT IsoCap
INVARIANT HotCap
CHECK_DEADLOCK FALSE
