SPECIFICATION MCSpec
CONSTANTS
  GenMode = FALSE
  GenDepth = 0
  MaxT = 2000
  DTSel = "lru"
  MaxN = 1
  FlowSets <- FlowNone
  HotSets <- HotLru
CONSTRAINT StateBound
INVARIANT BoundedQueue
INVARIANT WithinCap
CHECK_DEADLOCK FALSE
