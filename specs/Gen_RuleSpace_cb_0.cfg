SPECIFICATION Spec
CONSTANTS
  Fam = "cb"
  Sample = 0
INVARIANT PrintCase
CHECK_DEADLOCK FALSE
