SPECIFICATION TraceSpec
INVARIANT NeverOver
POSTCONDITION TraceAccepted
CHECK_DEADLOCK FALSE
