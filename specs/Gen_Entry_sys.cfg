SPECIFICATION MCSpec
CONSTANTS
  GenMode = TRUE
  GenDepth = 7
  MaxT = 60000
  MaxEnters = 20
  MaxOpen = 3
  MaxN = 1
  IsoSets <- IsoNone
  HotSets <- HotNone
  Inbounds <- BothB
  Ress <- R1
  ArgC <- NoArgs
  AttC <- NoArgs
  SysSets <- SysSetsSmall
  LoadVals <- LoadValsSmall
  DTMode = "mid"
CONSTRAINT GenBound
CHECK_DEADLOCK FALSE
INVARIANT PrintBehaviour
