SPECIFICATION MCSpec
CONSTANTS
  GenMode = TRUE
  GenDepth = 4
  Fam = "hot"
  MaxSet = 2
CHECK_DEADLOCK FALSE
CONSTRAINT ABABound
INVARIANT PrintABA
