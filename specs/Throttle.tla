------------------------------ MODULE Throttle ------------------------------
(***************************************************************************)
(* C07 — throttling paces admissions, bounds queueing and really delays    *)
(* the caller.  Flow throttling works in nanoseconds, hotspot throttling   *)
(* (per parameter value) in milliseconds.                                  *)
(*                                                                         *)
(* Instants and durations are pairs <<ms, sub>> with 0 <= sub < 10^6 ns    *)
(* (TLC integers are 32 bit).  Rates are rationals <<num, den>>.           *)
(*                                                                         *)
(* Flow rule [thr, I, maxq]: a request of n tokens has the interval        *)
(* iv = floor(n * I / thr) ns.  It passes at once if the previous          *)
(* scheduled instant + iv is not in the future; otherwise it is queued for *)
(* wait = last + iv - now if wait <= maxq (at wait = maxq either outcome   *)
(* is allowed), else rejected.  A queued caller is held for `wait`.        *)
(* Hotspot rule [thr, dur, maxq, spec]: the same per value with            *)
(* iv = round(n * dur / q_v) ms, first request of a value passing, and     *)
(* rejection when wait >= maxq (at equality either).                       *)
(***************************************************************************)
EXTENDS Integers, Sequences, FiniteSets, TLC

M == 1000000
NoVal == "<none>"

VARIABLES
    on,
    now,     \* <<ms, sub>>
    frule,   \* resource -> sequence of its flow throttling rules [id, res, thr, I, maxq] in consultation order
    flast,   \* rule id -> [fresh, last]
    hrule,   \* resource -> hotspot throttling rule [id, res, idx, key, thr, dur, maxq, spec]
    hlast,   \* rule id -> (value -> last scheduled ms)
    slept    \* what the last entry's caller was held for: <<ms, sub>>

tvars == <<on, now, frule, flast, hrule, hlast, slept>>

SeqToSet(s) == {s[i] : i \in 1..Len(s)}

(* ---- pair arithmetic ---- *)
Norm(ms, sub) == <<ms + (sub \div M), sub % M>>
Add(a, b) == Norm(a[1] + b[1], a[2] + b[2])
Sub(a, b) == IF a[2] >= b[2] THEN <<a[1] - b[1], a[2] - b[2]>> ELSE <<a[1] - b[1] - 1, a[2] + M - b[2]>>
Leq(a, b) == a[1] < b[1] \/ (a[1] = b[1] /\ a[2] <= b[2])
Lt(a, b) == a[1] < b[1] \/ (a[1] = b[1] /\ a[2] < b[2])
Zero == <<0, 0>>
Ms(k) == <<k, 0>>

\* floor(n * I_ms * 10^6 * den / num) ns as a pair
FlowIv(r, n) ==
    LET x == n * IF r.I = 0 THEN 1000 ELSE r.I
        a == x * r.thr[2]
        q == a \div r.thr[1]
        rem == a % r.thr[1]
    IN  <<q, (rem * M) \div r.thr[1]>>

\* round(n * dur * 1000 / q) ms
HotIv(r, v, n) ==
    LET q == IF v \in DOMAIN r.spec THEN r.spec[v] ELSE r.thr IN
    (2 * n * r.dur * 1000 + q) \div (2 * q)
HotQ(r, v) == IF v \in DOMAIN r.spec THEN r.spec[v] ELSE r.thr

Extract(r, args, att) ==
    LET k == r.key IN
    IF k # "" /\ k \in DOMAIN att THEN att[k]
    ELSE IF Len(args) = 0 THEN NoVal
    ELSE LET i == IF r.idx < 0 THEN r.idx + Len(args) ELSE r.idx IN
         IF i < 0 \/ i >= Len(args) THEN NoVal ELSE args[i + 1]

Args(ev) == IF "args" \in DOMAIN ev THEN ev.args ELSE <<>>
Att(ev)  == IF "att" \in DOMAIN ev THEN ev.att ELSE <<>>

(* ---- flow throttling: the allowed outcomes of a request of n tokens at instant t ---- *)
\* each outcome: [res \in {"pass","queue","block"}, wait, st']
FlowOutcomes(r, n, t, st) ==
    IF n = 0 THEN {[res |-> "pass", wait |-> Zero, st |-> st]}
    ELSE IF r.thr[1] <= 0 \/ n * r.thr[2] > r.thr[1] THEN {[res |-> "block", wait |-> Zero, st |-> st]}
    ELSE LET iv == FlowIv(r, n)
             exp == Add(st.last, iv)
         IN  IF st.fresh \/ Leq(exp, t)
             THEN {[res |-> "pass", wait |-> Zero, st |-> [fresh |-> FALSE, last |-> t]]}
             ELSE LET w == Sub(exp, t)
                      q == [res |-> "queue", wait |-> w, st |-> [fresh |-> FALSE, last |-> exp]]
                      b == [res |-> "block", wait |-> Zero, st |-> st]
                  IN  IF Lt(w, Ms(r.maxq)) THEN {q}
                      ELSE IF w = Ms(r.maxq) THEN {q, b}
                      ELSE {b}

(* ---- hotspot throttling (ms) ---- *)
\* The per-value schedule of a rule lives in an LRU cache of CapOf(r) entries.  Every decision except the one
\* for q = 0 makes the value the most recent one (a rejection too); a new value arriving at a full cache
\* evicts the least recent one, which then starts afresh.  The recency order (least recent first) is kept
\* under the reserved key LruKey next to the values.  Within the capacity nothing is ever evicted.
LruKey == "<lru>"
Vals(hl) == DOMAIN hl \ {LruKey}
Order(hl) == IF LruKey \in DOMAIN hl THEN hl[LruKey] ELSE <<>>
CapOf(r) == IF r.cap > 0 THEN r.cap ELSE IF 4000 * r.dur < 20000 THEN 4000 * r.dur ELSE 20000
Touch(r, hl, v, tm) ==
    LET ord == Order(hl)
        full == v \notin Vals(hl) /\ Len(ord) >= CapOf(r)
        rest == SelectSeq(IF full THEN Tail(ord) ELSE ord, LAMBDA x : x # v)
        keep == IF full THEN Vals(hl) \ {Head(ord)} ELSE Vals(hl)
    IN  (v :> tm) @@ (LruKey :> Append(rest, v)) @@ [x \in keep |-> hl[x]]

HotOutcomes(r, v, n, tms, hl) ==
    LET q == HotQ(r, v) IN
    IF q = 0 THEN {[res |-> "block", wait |-> 0, hl |-> hl]}
    ELSE IF v \notin Vals(hl) THEN {[res |-> "pass", wait |-> 0, hl |-> Touch(r, hl, v, tms)]}
    ELSE LET exp == hl[v] + HotIv(r, v, n)
             w == exp - tms
             p == [res |-> "pass", wait |-> 0, hl |-> Touch(r, hl, v, tms)]
             qd == [res |-> "queue", wait |-> w, hl |-> Touch(r, hl, v, exp)]
             b == [res |-> "block", wait |-> 0, hl |-> Touch(r, hl, v, hl[v])]
         IN  IF w <= 0 THEN {p}
             ELSE IF w < r.maxq THEN {qd}
             ELSE IF w = r.maxq THEN {qd, b}
             ELSE {b}

(* ---- events ---- *)
Reset(ev) ==
    /\ ev.e = "reset"
    /\ on' = TRUE /\ now' = <<ev.t, 0>> /\ frule' = <<>> /\ flast' = <<>> /\ hrule' = <<>> /\ hlast' = <<>>
    /\ slept' = Zero

Tm(ev) == <<ev.t, IF "tn" \in DOMAIN ev THEN ev.tn ELSE 0>>

\* rule equality ignores the id: an unchanged rule keeps its schedule across a reload (C11)
SameF(a, b) == a.res = b.res /\ a.thr[1] * b.thr[2] = b.thr[1] * a.thr[2] /\ a.I = b.I /\ a.maxq = b.maxq
SameH(a, b) == /\ a.res = b.res /\ a.idx = b.idx /\ a.key = b.key /\ a.thr = b.thr /\ a.dur = b.dur
               /\ a.maxq = b.maxq /\ a.spec = b.spec /\ a.cap = b.cap
Range(f) == {f[x] : x \in DOMAIN f}

Perms(S) == {p \in [1..Cardinality(S) -> S] : \A a \in S : \E i \in 1..Cardinality(S) : p[i] = a}
FlowRules == UNION {SeqToSet(frule[res]) : res \in DOMAIN frule}

\* several throttling rules of one resource are consulted one after the other, in an order fixed at load
\* time (unspecified: any permutation)
LoadFlow(ev) ==
    /\ ev.e = "load" /\ ev.fam = "flow" /\ ev.op \in {"all", "res"} /\ on /\ Leq(now, Tm(ev)) /\ now' = Tm(ev)
    /\ LET scope(r) == ev.op = "all" \/ r.res = ev.res
           rs == {r \in SeqToSet(ev.rules) : r.res # "" /\ r.thr[1] >= 0 /\ scope(r)}
                 \cup {o \in FlowRules : ~scope(o)}
           oldOf(r) == {o \in FlowRules : SameF(o, r)}
           ress == {r.res : r \in rs}
       IN
       /\ frule' \in [ress -> UNION {Perms({r \in rs : r.res = res}) : res \in ress}]
       /\ \A res \in ress : SeqToSet(frule'[res]) = {r \in rs : r.res = res} /\ Len(frule'[res]) = Cardinality({r \in rs : r.res = res})
       \* resources the call does not concern keep their order
       /\ \A res \in ress : (\A r \in {x \in rs : x.res = res} : ~scope(r)) => frule'[res] = frule[res]
       /\ flast' = [id \in {r.id : r \in rs} |->
                      LET r == CHOOSE x \in rs : x.id = id IN
                      IF oldOf(r) # {} THEN flast[(CHOOSE o \in oldOf(r) : TRUE).id]
                      ELSE [fresh |-> TRUE, last |-> Zero]]
    /\ slept' = Zero
    /\ UNCHANGED <<on, hrule, hlast>>

\* inh: a changed rule with the same duration may inherit the per-value schedule of the old one
LoadHot(ev, inh) ==
    /\ ev.e = "load" /\ ev.fam = "hot" /\ ev.op \in {"all", "res"} /\ on /\ Leq(now, Tm(ev)) /\ now' = Tm(ev)
    /\ LET scope(r) == ev.op = "all" \/ r.res = ev.res
           rs == {r \in SeqToSet(ev.rules) : r.res # "" /\ r.dur > 0 /\ scope(r)}
                 \cup {o \in Range(hrule) : ~scope(o)}
           oldOf(r) == {o \in Range(hrule) : SameH(o, r)}
           reuse(r) == {o \in Range(hrule) : o.res = r.res /\ o.dur = r.dur /\ o.cap = r.cap}
       IN
       /\ hrule' = [res \in {r.res : r \in rs} |-> CHOOSE r \in rs : r.res = res]
       /\ hlast' = [id \in {r.id : r \in rs} |->
                      LET r == CHOOSE x \in rs : x.id = id IN
                      IF oldOf(r) # {} THEN hlast[(CHOOSE o \in oldOf(r) : TRUE).id]
                      ELSE IF inh /\ reuse(r) # {} THEN hlast[(CHOOSE o \in reuse(r) : TRUE).id]
                      ELSE <<>>]
    /\ slept' = Zero
    /\ UNCHANGED <<on, frule, flast>>

\* fo / ho: the outcomes taken for the flow and for the hotspot stage ("none" stage = pass, no wait)
NoStage == [res |-> "pass", wait |-> Zero]

\* the rules of the resource one after the other: each sees the instant the previous one released the caller
\* at; a rejection ends the consultation (what was slept before stays slept)
RECURSIVE FWalk(_, _, _, _, _, _)
FWalk(rs, i, n, t, acc, sts) ==
    IF i > Len(rs) THEN {[res |-> "pass", wait |-> acc, sts |-> sts]}
    ELSE UNION { IF o.res = "block"
                 THEN {[res |-> "block", wait |-> acc, sts |-> (rs[i].id :> o.st) @@ sts]}
                 ELSE FWalk(rs, i + 1, n, Add(t, o.wait), Add(acc, o.wait), (rs[i].id :> o.st) @@ sts)
               : o \in FlowOutcomes(rs[i], n, t, flast[rs[i].id]) }

FlowStage(ev) ==
    IF ev.res \in DOMAIN frule
    THEN FWalk(frule[ev.res], 1, ev.n, Tm(ev), Zero, <<>>)
    ELSE {[res |-> "pass", wait |-> Zero, sts |-> <<>>]}

HotStage(ev, t1) ==
    IF ev.res \in DOMAIN hrule
    THEN LET r == hrule[ev.res]
             v == Extract(r, Args(ev), Att(ev))
         IN  IF v = NoVal THEN {[res |-> "pass", wait |-> 0, hl |-> hlast[r.id]]}
             ELSE HotOutcomes(r, v, ev.n, t1[1], hlast[r.id])
    ELSE {[res |-> "pass", wait |-> 0, hl |-> <<>>]}

Enter(ev, fo, ho) ==
    /\ ev.e = "enter" /\ on /\ Leq(now, Tm(ev))
    /\ fo \in FlowStage(ev)
    /\ LET t1 == Add(Tm(ev), fo.wait) IN
       /\ ho \in HotStage(ev, t1)
       /\ now' = Add(t1, Ms(ho.wait))
       /\ slept' = Add(fo.wait, Ms(ho.wait))
    /\ flast' = [id \in DOMAIN flast |-> IF id \in DOMAIN fo.sts THEN fo.sts[id] ELSE flast[id]]
    /\ hlast' = IF ev.res \in DOMAIN hrule THEN [hlast EXCEPT ![hrule[ev.res].id] = ho.hl] ELSE hlast
    /\ UNCHANGED <<on, frule, hrule>>

Blocked(fo, ho) == fo.res = "block" \/ ho.res = "block"
BlockType(fo, ho) == IF ho.res = "block" THEN "hotspot" ELSE "flow"

Other(ev) ==
    /\ ev.e \in {"exit", "adv"} /\ on /\ Leq(now, Tm(ev)) /\ now' = Tm(ev)
    /\ slept' = Zero
    /\ UNCHANGED <<on, frule, flast, hrule, hlast>>

ThrottleInit ==
    /\ on = FALSE /\ now = Zero /\ frule = <<>> /\ flast = <<>> /\ hrule = <<>> /\ hlast = <<>> /\ slept = Zero

(* ---- invariants ---- *)
\* the schedule never runs further ahead of the clock than the maximum queueing time
BoundedQueue ==
    /\ \A r \in FlowRules :
          flast[r.id].fresh \/ Leq(flast[r.id].last, Add(now, Ms(r.maxq)))
    /\ \A res \in DOMAIN hrule : LET r == hrule[res] IN
          \A v \in Vals(hlast[r.id]) : hlast[r.id][v] <= now[1] + r.maxq
=============================================================================
