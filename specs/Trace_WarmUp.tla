----------------------------- MODULE Trace_WarmUp -----------------------------
(* Trace validation for C08 (Tier A): a recorded history of single-token requests under one     *)
(* warm-up rule is judged against the envelope, second by second, plus the per-request upper     *)
(* bound "admitted in the current 1 s window never exceeds q".                                   *)
EXTENDS WarmEnv, Sequences, FiniteSets, TLC, Json, IOUtils

Rec == ndJsonDeserialize(IOEnv.TRACE)
Tau == 1

VARIABLES l, on, rule, now,
          admB, offB,    \* bucket index (t \div 500) -> tokens admitted / offered
          run, idle, lastAdm, coldAt,
          cap            \* threshold of a plain reject rule next to the warm-up rule on the resource (0 = none)
trvars == <<l, on, rule, now, admB, offB, run, idle, lastAdm, coldAt, cap>>

Get(f, k) == IF k \in DOMAIN f THEN f[k] ELSE 0
Has(ev, f) == f \in DOMAIN ev
Q == rule.thr[1] \div rule.thr[2]
Cf == EffCold(rule.cold)

\* close the books on the seconds completed before time t (state after: bookkeeping for second t \div 1000)
Roll(t) ==
    LET sec == now \div 1000
        snew == t \div 1000
    IN  IF snew = sec \/ rule = <<>>
        THEN UNCHANGED <<run, idle, lastAdm, coldAt>>
        ELSE LET adm == Get(admB, 2 * sec) + Get(admB, 2 * sec + 1)
                 off1 == Get(offB, 2 * sec)
                 off2 == Get(offB, 2 * sec + 1)
                 sat == off1 >= Q /\ off2 >= Q
                 isIdle == off1 + off2 = 0
                 k == snew - sec - 1                       \* fully idle seconds in between
                 idle1 == IF isIdle THEN idle + 1 ELSE 0
             IN  /\ SecondOKc(Q, cap, Cf, rule.warm, Tau, adm, off1, off2, run, coldAt, lastAdm)
                 /\ run' = IF k > 0 THEN 0 ELSE IF sat THEN run + 1 ELSE 0
                 /\ idle' = idle1 + k
                 /\ lastAdm' = IF k > 0 THEN 0 ELSE adm
                 /\ coldAt' = ((isIdle /\ coldAt) \/ idle1 + k >= 2 * rule.warm)

TraceInit ==
    /\ l = 1 /\ on = FALSE /\ rule = <<>> /\ now = 0 /\ admB = <<>> /\ offB = <<>>
    /\ run = 0 /\ idle = 0 /\ lastAdm = 0 /\ coldAt = TRUE /\ cap = 0

TraceNext ==
    /\ l <= Len(Rec)
    /\ l' = l + 1
    /\ LET ev == Rec[l] IN
       CASE ev.e = "reset" ->
              /\ ev.ok /\ on' = TRUE /\ rule' = <<>> /\ now' = ev.t /\ admB' = <<>> /\ offB' = <<>>
              /\ run' = 0 /\ idle' = 0 /\ lastAdm' = 0 /\ coldAt' = TRUE /\ cap' = 0
         [] ev.e = "load" ->
              \* the rules of the call: exactly one warm-up rule on r1, possibly a plain reject rule on r1 (the cap),
              \* anything on other resources.  A re-load of an equal warm-up rule - whatever its id, whatever
              \* happens to other resources - does not touch the bookkeeping: the rule must go on as it was.
              /\ Has(ev, "ret") /\ on /\ ev.fam = "flow"
              /\ LET mine == {i \in 1..Len(ev.rules) : ev.rules[i].res = "r1"}
                     warm == {i \in mine : Has(ev.rules[i], "calc") /\ ev.rules[i].calc = "warmup"}
                     plain == mine \ warm
                     w == ev.rules[CHOOSE i \in warm : TRUE]
                     same(a, b) == a.thr = b.thr /\ a.warm = b.warm /\ a.cold = b.cold /\ a.I = b.I
                 IN  /\ Cardinality(warm) = 1 /\ Cardinality(plain) <= 1
                     /\ rule # <<>> => same(rule, w)
                     /\ rule' = w
                     /\ cap' = IF plain = {} THEN 0 ELSE LET r == ev.rules[CHOOSE i \in plain : TRUE] IN r.thr[1] \div r.thr[2]
              /\ now' = ev.t
              /\ UNCHANGED <<on, admB, offB, run, idle, lastAdm, coldAt>>
         [] ev.e = "enter" ->
              /\ on /\ rule # <<>> /\ ev.t >= now /\ ev.n = 1
              /\ Roll(ev.t)
              /\ LET b == ev.t \div 500
                     win == Get(admB, b - 1) + Get(admB, b)
                 IN  /\ ev.r \in {"pass", "block"}
                     /\ ev.r = "block" => ev.bt = "flow"
                     /\ ev.r = "pass" => win + 1 <= (IF cap > 0 /\ cap < Q THEN cap ELSE Q)   \* never more than q (or the cap) inside the window
                     /\ admB' = IF ev.r = "pass" THEN (b :> Get(admB, b) + 1) @@ admB ELSE admB
                     /\ offB' = (b :> Get(offB, b) + 1) @@ offB
              /\ now' = ev.t
              /\ UNCHANGED <<on, rule, cap>>
         [] ev.e \in {"adv", "exit"} ->
              /\ on /\ ev.t >= now /\ Roll(ev.t) /\ now' = ev.t
              /\ UNCHANGED <<on, rule, admB, offB, cap>>
         [] OTHER -> FALSE
TraceSpec == TraceInit /\ [][TraceNext]_trvars

TraceAccepted ==
    LET d == TLCGet("stats").diameter IN
    IF d - 1 = Len(Rec) THEN TRUE
    ELSE /\ PrintT(<<"TRACE_REJECTED", d, Len(Rec), ToJson(Rec[d])>>)
         /\ FALSE
=============================================================================
