SPECIFICATION TraceSpec
INVARIANT RingRefines
POSTCONDITION TraceAccepted
CHECK_DEADLOCK FALSE
