SPECIFICATION Spec
CONSTANTS
  Fam = "iso"
  Sample = 0
INVARIANT PrintCase
CHECK_DEADLOCK FALSE
