SPECIFICATION Spec
CONSTANTS
  Fam = "flow"
  Sample = 0
INVARIANT PrintCase
CHECK_DEADLOCK FALSE
