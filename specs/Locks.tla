-------------------------------- MODULE Locks --------------------------------
(***************************************************************************)
(* C15, model level: the lock programs of the manager operations - the     *)
(* sequences of acquisitions and releases each operation performs, as      *)
(* recorded from the current tree by running it alone under the sync shims *)
(* - composed pairwise with the semantics of std's Mutex / RwLock (no      *)
(* re-entrancy; readers exclude writers; a reader queues behind a waiting  *)
(* writer).  TLC explores ALL interleavings of every pair (no preemption   *)
(* bound at this level) and reports a state in which some thread is        *)
(* unfinished and none can move.  Such a state is only a candidate: the    *)
(* pair is then explored on the real code by the deterministic scheduler,  *)
(* and only a reproduced dead-lock is a violation.                         *)
(* Locks are named by their construction site; instances created at the    *)
(* same site (per-breaker state mutexes) are conflated here, which can     *)
(* only add candidates.                                                    *)
(***************************************************************************)
EXTENDS Integers, Sequences, FiniteSets, TLC, Json, IOUtils

\* sequence of [op |-> name, steps |-> <<[k |-> "acq" | "rel", m |-> "W" | "R", l |-> site]>>]
Progs == JsonDeserialize(IOEnv.PROGS)
Excluded == JsonDeserialize(IOEnv.EXCLUDE)     \* pairs <<i, j>> already handed to the scheduler

VARIABLES pair, pc, held
lvars == <<pair, pc, held>>
T == {1, 2}
SeqToSet(s) == {s[i] : i \in 1..Len(s)}
Steps(t) == Progs[pair[t]].steps
Done(t) == pc[t] > Len(Steps(t))
Cur(t) == Steps(t)[pc[t]]

HeldBy(t, l, m) == \E i \in 1..Len(held[t]) : held[t][i].l = l /\ held[t][i].m = m
HeldAny(t, l) == \E i \in 1..Len(held[t]) : held[t][i].l = l
Other(t) == 3 - t

\* a waiting writer: the other thread's current step is a write acquisition of l that cannot proceed
WriterWaiting(t, l) == /\ ~Done(Other(t)) /\ Cur(Other(t)).k = "acq" /\ Cur(Other(t)).m = "W" /\ Cur(Other(t)).l = l
                       /\ \E u \in T : HeldAny(u, l)

Enabled(t) ==
    /\ ~Done(t)
    /\ LET s == Cur(t) IN
       IF s.k = "rel" THEN TRUE
       ELSE IF s.m = "W" THEN \A u \in T : ~HeldAny(u, s.l)
       ELSE /\ \A u \in T : ~HeldBy(u, s.l, "W")
            /\ ~WriterWaiting(t, s.l)

RemoveLast(h, l) ==
    LET idx == {i \in 1..Len(h) : h[i].l = l} IN
    IF idx = {} THEN h
    ELSE LET k == CHOOSE i \in idx : \A j \in idx : j <= i IN SubSeq(h, 1, k - 1) \o SubSeq(h, k + 1, Len(h))

Step(t) ==
    /\ Enabled(t)
    /\ LET s == Cur(t) IN
       held' = [held EXCEPT ![t] = IF s.k = "acq" THEN Append(@, [l |-> s.l, m |-> s.m]) ELSE RemoveLast(@, s.l)]
    /\ pc' = [pc EXCEPT ![t] = @ + 1]
    /\ UNCHANGED pair

Init == /\ pair \in {<<i, j>> : i \in 1..Len(Progs), j \in 1..Len(Progs)}
        /\ pair[1] <= pair[2] /\ pair \notin SeqToSet(Excluded)
        /\ pc = <<1, 1>> /\ held = <<<<>>, <<>>>>
Next == \E t \in T : Step(t)
Spec == Init /\ [][Next]_lvars

NoDeadlock == (\A t \in T : Done(t)) \/ (\E t \in T : Enabled(t))
=============================================================================
