SPECIFICATION Spec
CONSTANTS
  N = 3
  Variant = "entry"
  AtomicDec = TRUE
INVARIANT Atomic
CHECK_DEADLOCK FALSE
