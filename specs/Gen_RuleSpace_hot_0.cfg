SPECIFICATION Spec
CONSTANTS
  Fam = "hot"
  Sample = 0
INVARIANT PrintCase
CHECK_DEADLOCK FALSE
