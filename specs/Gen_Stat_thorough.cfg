SPECIFICATION MCSpec
CONSTANTS
  Geos <- GeosGen
  MCKinds <- KindsPR
  MaxC = 2
  MaxTotal = 100
  MaxSpan = 4
  GenMode = TRUE
  GenDepth = 4
CONSTRAINT GenBound
INVARIANT PrintBehaviour
CHECK_DEADLOCK FALSE
