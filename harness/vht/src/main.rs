//! vht — C20 driver: the real SentinelService (Tower middleware) over a scripted inner service,
//! polled by hand with a no-op waker.  Logs what it observes; TLC judges.
use rand::{rngs::StdRng, Rng, SeedableRng};
use sentinel_core::base::ConcurrencyStat;
use sentinel_core::{isolation, stat};
use sentinel_tower::{BoxError, SentinelService, ServiceRole};
use serde_json::{json, Value};
use std::collections::VecDeque;
use std::future::Future;
use std::io::{BufRead, Write};
use std::pin::Pin;
use std::sync::atomic::{AtomicU64, Ordering};
use std::sync::{Arc, Mutex};
use std::task::{Context, Poll, Wake, Waker};
use tower::Service;

struct Noop;
impl Wake for Noop {
    fn wake(self: Arc<Self>) {}
}

#[derive(Clone)]
struct Inner {
    script: Arc<Mutex<VecDeque<String>>>,
    calls: Arc<AtomicU64>,
}

struct Scripted {
    outcome: String,
    polled: bool,
}
impl Future for Scripted {
    type Output = Result<String, BoxError>;
    fn poll(mut self: Pin<&mut Self>, _cx: &mut Context<'_>) -> Poll<Self::Output> {
        let pending_first = self.outcome.starts_with('p');
        if pending_first && !self.polled {
            self.polled = true;
            return Poll::Pending;
        }
        if self.outcome.ends_with("ok") {
            Poll::Ready(Ok("inner".to_string()))
        } else {
            Poll::Ready(Err("inner error".into()))
        }
    }
}

impl Service<String> for Inner {
    type Response = String;
    type Error = BoxError;
    type Future = Pin<Box<dyn Future<Output = Result<String, BoxError>> + Send>>;
    fn poll_ready(&mut self, _cx: &mut Context<'_>) -> Poll<Result<(), BoxError>> {
        Poll::Ready(Ok(()))
    }
    fn call(&mut self, _req: String) -> Self::Future {
        self.calls.fetch_add(1, Ordering::SeqCst);
        let outcome = self.script.lock().unwrap().pop_front().unwrap_or_else(|| "ok".into());
        Box::pin(Scripted { outcome, polled: false })
    }
}

fn extractor(req: &String) -> String {
    req.clone()
}
fn fallback(_req: &String, _err: sentinel_core::Error) -> Result<String, BoxError> {
    Ok("fallback".to_string())
}

static HIST: AtomicU64 = AtomicU64::new(0);

fn conc(res: &String) -> i64 {
    stat::get_resource_node(res).map(|n| n.current_concurrency() as i64).unwrap_or(0)
}

/// One history: [{"e":"reset","T":1,"fallback":true,"role":"server"}, {"e":"req","outcome":"ok","drop":false}, ...]
fn exec(events: &[Value]) -> Vec<Value> {
    let mut out = Vec::new();
    let hid = HIST.fetch_add(1, Ordering::SeqCst);
    let res = format!("tower#{}", hid);
    let script = Arc::new(Mutex::new(VecDeque::new()));
    let calls = Arc::new(AtomicU64::new(0));
    let mut svc: Option<SentinelService<Inner, String>> = None;
    let waker = Waker::from(Arc::new(Noop));
    let mut cx = Context::from_waker(&waker);
    let mut inbound0: i64 = 0;
    let mut pending: VecDeque<Pin<Box<dyn Future<Output = Result<String, BoxError>> + Send>>> = VecDeque::new();
    for ev in events {
        let mut ev = ev.clone();
        match ev["e"].as_str().unwrap() {
            "reset" => {
                isolation::load_rules(vec![Arc::new(isolation::Rule {
                    id: "iso".into(),
                    resource: res.clone(),
                    threshold: ev["T"].as_u64().unwrap() as u32,
                    ..Default::default()
                })]);
                let role = if ev["role"] == "server" { ServiceRole::Server } else { ServiceRole::Client };
                let mut s = SentinelService::new(Inner { script: script.clone(), calls: calls.clone() }, role).with_extractor(extractor);
                if ev["fallback"].as_bool().unwrap_or(false) {
                    s = s.with_fallback(fallback);
                }
                svc = Some(s);
                inbound0 = stat::inbound_node().current_concurrency() as i64;
                // virtual clock, far from the previous history
                sentinel_core::verif::clock::set_ms(1_700_300_000_000 + hid * 7_200_000);
                ev["ok"] = json!(true);
            }
            "req" => {
                let s = svc.as_mut().unwrap();
                script.lock().unwrap().push_back(ev["outcome"].as_str().unwrap().to_string());
                let c0 = calls.load(Ordering::SeqCst);
                let r = std::panic::catch_unwind(std::panic::AssertUnwindSafe(|| {
                    let _ = s.poll_ready(&mut cx);
                    let mut fut = s.call(res.clone());
                    if ev["drop"].as_bool().unwrap_or(false) {
                        // polled once (or not at all for ready outcomes), then dropped before completion
                        if ev["outcome"].as_str().unwrap().starts_with('p') {
                            let _ = fut.as_mut().poll(&mut cx);
                        }
                        drop(fut);
                        return ("dropped".to_string(), 0);
                    }
                    let mut polls = 0;
                    loop {
                        polls += 1;
                        match fut.as_mut().poll(&mut cx) {
                            Poll::Ready(Ok(v)) => return (if v == "fallback" { "fallback".to_string() } else { "ok".to_string() }, polls),
                            Poll::Ready(Err(_)) => return ("err".to_string(), polls),
                            Poll::Pending if polls > 5 => return ("stuck".to_string(), polls),
                            Poll::Pending => {}
                        }
                    }
                }));
                script.lock().unwrap().clear();
                match r {
                    Ok((result, polls)) => {
                        ev["result"] = json!(result);
                        ev["polls"] = json!(polls);
                    }
                    Err(_) => {
                        ev["result"] = json!("panic");
                    }
                }
                ev["called"] = json!(calls.load(Ordering::SeqCst) - c0);
                ev["conc"] = json!(conc(&res));
                ev["inb"] = json!(stat::inbound_node().current_concurrency() as i64 - inbound0);
            }
            "hold" => {
                // a request whose inner call is pending: polled once and left in flight
                let s = svc.as_mut().unwrap();
                script.lock().unwrap().push_back(ev["outcome"].as_str().unwrap().to_string());
                let c0 = calls.load(Ordering::SeqCst);
                let _ = s.poll_ready(&mut cx);
                let mut fut = s.call(res.clone());
                match fut.as_mut().poll(&mut cx) {
                    Poll::Ready(Ok(v)) => ev["result"] = json!(if v == "fallback" { "fallback" } else { "ok" }),
                    Poll::Ready(Err(_)) => ev["result"] = json!("err"),
                    Poll::Pending => {
                        ev["result"] = json!("pending");
                        pending.push_back(fut);
                    }
                }
                script.lock().unwrap().clear();
                ev["called"] = json!(calls.load(Ordering::SeqCst) - c0);
                ev["conc"] = json!(conc(&res));
                ev["inb"] = json!(stat::inbound_node().current_concurrency() as i64 - inbound0);
            }
            "adv" => {
                sentinel_core::verif::clock::advance_ms(ev["ms"].as_u64().unwrap());
            }
            "resume" => {
                match pending.pop_front() {
                    Some(mut fut) => {
                        let mut polls = 0;
                        ev["result"] = loop {
                            polls += 1;
                            match fut.as_mut().poll(&mut cx) {
                                Poll::Ready(Ok(_)) => break json!("ok"),
                                Poll::Ready(Err(_)) => break json!("err"),
                                Poll::Pending if polls > 5 => break json!("stuck"),
                                Poll::Pending => {}
                            }
                        };
                    }
                    None => ev["result"] = json!("nothing"),
                }
                ev["called"] = json!(0);
                ev["conc"] = json!(conc(&res));
                ev["inb"] = json!(stat::inbound_node().current_concurrency() as i64 - inbound0);
            }
            other => panic!("unknown event {}", other),
        }
        out.push(ev);
    }
    out
}

fn main() {
    let argv: Vec<String> = std::env::args().collect();
    let get = |k: &str| -> Option<String> { argv.iter().position(|a| a == k).and_then(|i| argv.get(i + 1).cloned()) };
    let mut outf = std::io::BufWriter::new(std::fs::File::create(get("--out").expect("--out")).unwrap());
    let mut put = |evs: Vec<Value>| {
        for e in evs {
            serde_json::to_writer(&mut outf, &e).unwrap();
            outf.write_all(b"\n").unwrap();
        }
    };
    match argv[1].as_str() {
        "replay" => {
            let f = std::io::BufReader::new(std::fs::File::open(get("--in").unwrap()).unwrap());
            for line in f.lines() {
                let line = line.unwrap();
                if line.trim().is_empty() {
                    continue;
                }
                let v: Value = serde_json::from_str(&line).unwrap();
                put(exec(v.as_array().unwrap()));
            }
        }
        "drive" => {
            let mut rng = StdRng::seed_from_u64(get("--seed").and_then(|s| s.parse().ok()).unwrap_or(1));
            let n: u64 = get("--hist").and_then(|s| s.parse().ok()).unwrap_or(200);
            for _ in 0..n {
                let mut evs = vec![json!({"e": "reset", "T": rng.gen_range(1..=3), "fallback": rng.gen_bool(0.5),
                    "role": if rng.gen_bool(0.5) { "server" } else { "client" }})];
                let mut held = 0;
                for _ in 0..rng.gen_range(1..=12) {
                    let o = ["ok", "err", "pok", "perr"][rng.gen_range(0..4)];
                    match rng.gen_range(0..6) {
                        0 if held < 3 => {
                            let ho = ["pok", "perr"][rng.gen_range(0..2)];
                            evs.push(json!({"e": "hold", "outcome": ho}));
                            held += 1; // (a rejected one is not held; a surplus resume is then a no-op the spec rejects, so count exactly below)
                        }
                        1 if held > 0 => {
                            if rng.gen_bool(0.3) {
                                let ms = [250u64, 60_000, 60_001, 120_000][rng.gen_range(0..4)];
                                evs.push(json!({"e": "adv", "ms": ms}));
                            }
                            evs.push(json!({"e": "resume"}));
                            held -= 1;
                        }
                        _ => evs.push(json!({"e": "req", "outcome": o, "drop": rng.gen_range(0..8) == 0})),
                    }
                }
                put(exec(&evs));
            }
        }
        _ => std::process::exit(2),
    }
}
