//! C08 drivers: expand bucket-level demand profiles (from TLC) or random per-second profiles into
//! single-token requests on an arrival grid, as world events.
use rand::Rng;
use serde_json::{json, Value};

fn rule(q: u64, c: u64, p: u64) -> Value {
    json!({"id": "w1", "res": "r1", "calc": "warmup", "ctl": "reject", "thr": [q, 1], "warm": p, "cold": c, "I": 0})
}

fn header(q: u64, c: u64, p: u64) -> Vec<Value> {
    vec![
        json!({"e": "reset", "t": 0, "obs": 0, "cfg": {"nt": 20, "It": 10000, "n": 2, "I": 1000}}),
        json!({"e": "load", "fam": "flow", "op": "all", "t": 0, "rules": [rule(q, c, p)]}),
    ]
}

/// A TLC behaviour [{q,c,p}, {d}, {d}, {gap}, ...]: d requests spread over each 500 ms bucket.
pub fn expand_profile(beh: &[Value]) -> Vec<Value> {
    let (q, c, p) = (beh[0]["q"].as_u64().unwrap(), beh[0]["c"].as_u64().unwrap(), beh[0]["p"].as_u64().unwrap());
    let mut evs = header(q, c, p);
    let mut half: u64 = 0;
    let mut id = 0;
    for step in &beh[1..] {
        if let Some(k) = step.get("gap").and_then(|x| x.as_u64()) {
            half += 2 * k;
            continue;
        }
        let d = step["d"].as_u64().unwrap();
        for i in 0..d {
            id += 1;
            evs.push(json!({"e": "enter", "id": id, "res": "r1", "n": 1, "t": half * 500 + i * 500 / d}));
        }
        half += 1;
    }
    // close the books on the last second
    evs.push(json!({"e": "adv", "t": ((half + 1) / 2 + 1) * 1000}));
    evs
}

/// Random per-second profile: saturating runs, idle gaps, trickles; arrival grid of g ms.
pub fn random_history(rng: &mut impl Rng, small: bool) -> Vec<Value> {
    let qs: &[u64] = if small { &[30, 31, 47, 60] } else { &[30, 31, 47, 60, 100, 250, 500] };
    let (q, c, p) = loop {
        let q = qs[rng.gen_range(0..qs.len())];
        let c = [0u64, 2, 3, 4, 6][rng.gen_range(0..5)];
        let p = if small { rng.gen_range(1..=3u64) } else { [1u64, 2, 3, 5, 10, 20][rng.gen_range(0..6)] };
        if q >= 10 * c.max(1) {
            break (q, c, p);
        }
    };
    let grids: Vec<u64> = [1u64, 2, 4, 5, 10, 20].iter().cloned().filter(|g| 500 / g >= q || rng.gen_range(0..4) == 0).collect();
    let g = grids[rng.gen_range(0..grids.len())];
    let mut evs = header(q, c, p);
    let mut sec: u64 = 0;
    let mut id = 0;
    let total = 3 * (2 * p + 2);
    while sec < total {
        match rng.gen_range(0..10) {
            0 => sec += [0, p, 2 * p, 5 * p][rng.gen_range(0..4)], // idle gap
            1 => {
                // a trickle below q/c for a second
                let n = (q / c.max(3) / 2).max(1);
                for i in 0..n {
                    id += 1;
                    evs.push(json!({"e": "enter", "id": id, "res": "r1", "n": 1, "t": sec * 1000 + i * 1000 / n}));
                }
                sec += 1;
            }
            _ => {
                // a run of saturating seconds
                let len = rng.gen_range(1..=(2 * p + 3));
                for _ in 0..len {
                    let mut off = 0;
                    while off < 1000 {
                        id += 1;
                        evs.push(json!({"e": "enter", "id": id, "res": "r1", "n": 1, "t": sec * 1000 + off}));
                        off += g;
                    }
                    sec += 1;
                }
            }
        }
    }
    evs.push(json!({"e": "adv", "t": (sec + 1) * 1000}));
    evs
}

/// Pure saturation from cold for 2p+6 seconds, an idle gap of 2p seconds, saturation again for p+2 seconds:
/// the whole ramp of one (q, c, p), chosen among the combinations where integer truncation matters
/// (q not divisible by c, long warm-up periods, short periods with large cold factors).
pub fn ramp_history(k: usize) -> Vec<Value> {
    let combos: &[(u64, u64, u64)] = &[
        (40, 3, 20), (300, 6, 1), (31, 3, 20), (200, 5, 1), (62, 6, 10), (35, 2, 20), (300, 4, 1), (40, 0, 20), (47, 4, 10),
        (100, 3, 10), (300, 6, 2), (120, 3, 1), (250, 6, 3), (500, 6, 5), (61, 6, 20),
    ];
    let (q, c, p) = combos[k % combos.len()];
    // offered load at least q per half second
    let g = if q > 250 { 1 } else if q > 100 { 2 } else if q > 50 { 5 } else { 10 };
    let mut evs = header(q, c, p);
    // every third history: a plain reject rule between q/c and q next to the warm-up rule; another third: the
    // same warm-up rule re-loaded under a new id, with an unrelated resource added, once it is warm
    let variant = k % 3;
    if variant == 1 {
        let d = (q / c.max(3) + q) / 2;
        evs[1]["rules"].as_array_mut().unwrap().push(json!({"id": "f2", "res": "r1", "thr": [d, 1], "I": 0}));
    }
    let mut id = 0;
    let mut sec = 0u64;
    let mut run = |evs: &mut Vec<Value>, sec: &mut u64, len: u64| {
        for _ in 0..len {
            let mut off = 0;
            while off < 1000 {
                id += 1;
                evs.push(json!({"e": "enter", "id": id, "res": "r1", "n": 1, "t": *sec * 1000 + off}));
                off += g;
            }
            *sec += 1;
        }
    };
    run(&mut evs, &mut sec, 2 * p + 4);
    if variant == 2 {
        let mut w = rule(q, c, p);
        w["id"] = json!("w1~1");
        evs.push(json!({"e": "load", "fam": "flow", "op": "all", "t": sec * 1000,
                        "rules": [{"id": "z1", "res": "rz", "thr": [5, 1], "I": 0}, w]}));
    }
    run(&mut evs, &mut sec, 2);
    sec += 2 * p;
    run(&mut evs, &mut sec, p + 2);
    evs.push(json!({"e": "adv", "t": (sec + 1) * 1000}));
    evs
}
