//! Shared helpers: ndjson output, behaviour input, panic capture, seeded RNG.
use rand::rngs::StdRng;
use rand::SeedableRng;
use serde_json::Value;
use std::fs::File;
use std::io::{BufRead, BufReader, BufWriter, Write};

pub const T0_BASE: u64 = 1_700_000_000_000;

/// Smallest multiple of `m` that is >= T0_BASE (epoch for one history).
pub fn epoch_for(m: u64) -> u64 {
    let m = m.max(1);
    ((T0_BASE + m - 1) / m) * m
}

pub fn gcd(a: u64, b: u64) -> u64 {
    if b == 0 { a } else { gcd(b, a % b) }
}
pub fn lcm(a: u64, b: u64) -> u64 {
    if a == 0 || b == 0 { a.max(b) } else { a / gcd(a, b) * b }
}

pub struct Out {
    w: BufWriter<File>,
    pub lines: u64,
}

impl Out {
    pub fn create(path: &str) -> Out {
        Out { w: BufWriter::new(File::create(path).expect("create output")), lines: 0 }
    }
    pub fn put(&mut self, v: &Value) {
        serde_json::to_writer(&mut self.w, v).unwrap();
        self.w.write_all(b"\n").unwrap();
        self.lines += 1;
    }
    pub fn put_all(&mut self, vs: &[Value]) {
        for v in vs {
            self.put(v);
        }
    }
    pub fn finish(mut self) {
        self.w.flush().unwrap();
    }
}

/// Each line of the input is one behaviour: a JSON array of input events.
pub fn read_behaviours(path: &str) -> Vec<Vec<Value>> {
    let f = BufReader::new(File::open(path).expect("open behaviours"));
    let mut res = Vec::new();
    for line in f.lines() {
        let line = line.unwrap();
        let line = line.trim();
        if line.is_empty() {
            continue;
        }
        let v: Value = serde_json::from_str(line).expect("behaviour json");
        res.push(v.as_array().expect("behaviour array").clone());
    }
    res
}

pub fn rng(seed: u64) -> StdRng {
    StdRng::seed_from_u64(seed)
}

pub fn u(v: &Value, k: &str) -> u64 {
    v[k].as_u64().unwrap_or_else(|| panic!("field {} missing in {}", k, v))
}
pub fn i(v: &Value, k: &str) -> i64 {
    v[k].as_i64().unwrap_or_else(|| panic!("field {} missing in {}", k, v))
}
pub fn s<'a>(v: &'a Value, k: &str) -> &'a str {
    v[k].as_str().unwrap_or_else(|| panic!("field {} missing in {}", k, v))
}

/// Run `f`, turning a panic of the code under test into data.
pub fn guarded<T>(f: impl FnOnce() -> T) -> Result<T, String> {
    match std::panic::catch_unwind(std::panic::AssertUnwindSafe(f)) {
        Ok(v) => Ok(v),
        Err(e) => {
            let msg = if let Some(s) = e.downcast_ref::<&str>() {
                s.to_string()
            } else if let Some(s) = e.downcast_ref::<String>() {
                s.clone()
            } else {
                "panic".to_string()
            };
            Err(msg)
        }
    }
}

pub struct Args {
    pub map: std::collections::HashMap<String, String>,
}
impl Args {
    pub fn parse(args: &[String]) -> Args {
        let mut map = std::collections::HashMap::new();
        let mut i = 0;
        while i < args.len() {
            if let Some(k) = args[i].strip_prefix("--") {
                let v = args.get(i + 1).cloned().unwrap_or_default();
                map.insert(k.to_string(), v);
                i += 2;
            } else {
                i += 1;
            }
        }
        Args { map }
    }
    pub fn get(&self, k: &str) -> &str {
        self.map.get(k).unwrap_or_else(|| panic!("missing --{}", k))
    }
    pub fn get_or<'a>(&'a self, k: &str, d: &'a str) -> &'a str {
        self.map.get(k).map(|s| s.as_str()).unwrap_or(d)
    }
    pub fn num(&self, k: &str, d: u64) -> u64 {
        self.map.get(k).map(|s| s.parse().unwrap()).unwrap_or(d)
    }
}
