//! C17 driver: one fresh process per configuration case (the configuration and the statistic
//! nodes are created once per process).
use crate::util::*;
use sentinel_core::config::ConfigEntity;
use sentinel_core::verif;
use sentinel_core::{stat, EntryBuilder};
use serde_json::{json, Value};

fn geometry(res: &str) -> Value {
    match guarded(|| {
        let e = EntryBuilder::new(res.to_string()).build();
        if let Ok(e) = e {
            e.exit();
        }
        stat::get_resource_node(&res.to_string()).map(|n| verif::node_geometry(&n))
    }) {
        Ok(Some(g)) => json!([g.0, g.1, g.2, g.3]),
        Ok(None) => json!("nonode"),
        Err(p) => json!(format!("panic: {}", p.chars().take(80).collect::<String>())),
    }
}

/// Runs in the child process: initialise Sentinel with the case, touch resources from two threads.
pub fn run_case(a: &Args) -> Value {
    let (nt, it, n, iv) = (a.num("nt", 20) as u32, a.num("It", 10000) as u32, a.num("n", 2) as u32, a.num("I", 1000) as u32);
    let mode = a.get_or("mode", "entity").to_string();
    let mut ev = json!({"e": "config", "nt": nt, "It": it, "n": n, "I": iv, "mode": mode});
    let mut ce = ConfigEntity::new();
    ce.config.stat.sample_count_total = nt;
    ce.config.stat.interval_ms_total = it;
    ce.config.stat.sample_count = n;
    ce.config.stat.interval_ms = iv;
    ce.config.log.metric.flush_interval_sec = 0; // no metric-log task in these processes
    ce.config.use_cache_time = false;
    // a thread that exists - and has used Sentinel with the default configuration - before initialisation
    let (tx_go, rx_go) = std::sync::mpsc::channel::<()>();
    let (tx_ready, rx_ready) = std::sync::mpsc::channel::<()>();
    let early = std::thread::spawn(move || {
        let _ = geometry("c17-pre");
        let _ = tx_ready.send(());
        match rx_go.recv() {
            Ok(()) => geometry("c17-early"),
            Err(_) => json!("none"),
        }
    });
    let _ = rx_ready.recv();
    let r = guarded(|| {
        if mode == "yaml" {
            let text = serde_json::to_string(&ce).unwrap(); // JSON is YAML
            let path = format!("{}/vh-c17-{}.yaml", std::env::temp_dir().display(), std::process::id());
            std::fs::write(&path, text).unwrap();
            let r = sentinel_core::init_with_config_file(path.clone());
            let _ = std::fs::remove_file(&path);
            r.is_ok()
        } else {
            sentinel_core::init_with_config(ce).is_ok()
        }
    });
    match r {
        Ok(ok) => {
            ev["ok"] = json!(ok);
            if ok {
                ev["geo_main"] = geometry("c17-main");
                ev["geo_other"] = std::thread::spawn(|| geometry("c17-other")).join().unwrap_or(json!("panic: thread"));
                let _ = tx_go.send(());
                ev["geo_early"] = early.join().unwrap_or(json!("panic: thread"));
            } else {
                ev["geo_main"] = json!("none");
                ev["geo_other"] = json!("none");
                // a rejected configuration is not the one in effect: statistics keep working, with one
                // (servable) geometry for every thread
                let gm = geometry("c17-main");
                let go = std::thread::spawn(|| geometry("c17-other")).join().unwrap_or(json!("panic: thread"));
                let _ = tx_go.send(());
                let ge = early.join().unwrap_or(json!("panic: thread"));
                if gm.is_array() && go.is_array() && ge.is_array() {
                    ev["rej_main"] = gm;
                    ev["rej_other"] = go;
                    ev["rej_early"] = ge;
                } else {
                    ev["rej_bad"] = json!(format!("{} / {} / {}", gm, go, ge));
                }
            }
        }
        Err(p) => {
            ev["ok"] = json!(false);
            ev["panic"] = json!(p);
            ev["geo_main"] = json!("none");
            ev["geo_other"] = json!("none");
        }
    }
    ev
}

/// Parent: the grid, one child process per case and init path.
pub fn grid(counts: &[u64], intervals: &[u64], out: &mut Out) {
    let exe = std::env::current_exe().unwrap();
    let mut jobs = Vec::new();
    for &nt in counts {
        for &it in intervals {
            for &n in counts {
                for &iv in intervals {
                    for mode in ["entity", "yaml"] {
                        jobs.push((nt, it, n, iv, mode));
                    }
                }
            }
        }
    }
    let results: Vec<Value> = {
        let jobs = std::sync::Arc::new(std::sync::Mutex::new(jobs.into_iter().enumerate().collect::<Vec<_>>()));
        let res = std::sync::Arc::new(std::sync::Mutex::new(Vec::new()));
        let mut hs = Vec::new();
        for _ in 0..12 {
            let (jobs, res, exe) = (jobs.clone(), res.clone(), exe.clone());
            hs.push(std::thread::spawn(move || loop {
                let job = jobs.lock().unwrap().pop();
                let (i, (nt, it, n, iv, mode)) = match job {
                    Some(j) => j,
                    None => break,
                };
                let o = std::process::Command::new(&exe)
                    .args(["config-case", "--nt", &nt.to_string(), "--It", &it.to_string(), "--n", &n.to_string(),
                           "--I", &iv.to_string(), "--mode", mode])
                    .output();
                let v = match o {
                    Ok(o) if o.status.success() => serde_json::from_slice::<Value>(&o.stdout).unwrap_or(json!({"e": "config", "crash": true})),
                    _ => json!({"e": "config", "nt": nt, "It": it, "n": n, "I": iv, "mode": mode, "ok": false,
                                "panic": "process died", "geo_main": "none", "geo_other": "none"}),
                };
                res.lock().unwrap().push((i, v));
            }));
        }
        for h in hs {
            h.join().unwrap();
        }
        let mut r = std::mem::take(&mut *res.lock().unwrap());
        r.sort_by_key(|x| x.0);
        r.into_iter().map(|x| x.1).collect()
    };
    out.put_all(&results);
}
