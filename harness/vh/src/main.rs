//! vh — verification harness for sentinel-rust. Drivers, projections and loggers only:
//! every expected value comes from TLC.
mod cfgcase;
mod conc;
mod sched;
mod chain;
mod gens;
mod mlog;
mod space;
mod stat;
mod util;
mod warm;
mod world;

use util::*;

fn main() {
    let argv: Vec<String> = std::env::args().collect();
    if argv.len() < 2 {
        eprintln!("usage: vh <command> [--key value]...");
        std::process::exit(2);
    }
    let a = Args::parse(&argv[2..]);
    // panics of the code under test are data; keep stderr quiet
    std::panic::set_hook(Box::new(|_| {}));
    match argv[1].as_str() {
        "stat-replay" => {
            let mut out = Out::create(a.get("out"));
            for b in read_behaviours(a.get("in")) {
                out.put_all(&stat::exec(&b));
            }
            println!("events={}", out.lines);
            out.finish();
        }
        "stat-drive" => {
            let mut rng = rng(a.num("seed", 1));
            let mut out = Out::create(a.get("out"));
            let mut inp = Out::create(&format!("{}.in", a.get("out")));
            for _ in 0..a.num("hist", 100) {
                let h = stat::random_history(&mut rng, a.num("len", 60) as usize);
                inp.put(&serde_json::Value::Array(h.clone()));
                out.put_all(&stat::exec(&h));
            }
            println!("events={}", out.lines);
            out.finish();
            inp.finish();
        }
        "stat-grid" => {
            let mut out = Out::create(a.get("out"));
            let kmax = a.num("kmax", 6);
            let vals: Vec<u64> = (0..=a.num("jmax", 24)).collect();
            out.put_all(&stat::exec(&stat::grid(kmax, &vals)));
            println!("events={}", out.lines);
            out.finish();
        }
        "chain-replay" => {
            let mut out = Out::create(a.get("out"));
            for b in read_behaviours(a.get("in")) {
                for c in &b {
                    out.put(&chain::exec_case(c));
                }
            }
            println!("events={}", out.lines);
            out.finish();
        }
        "chain-drive" => {
            let mut rng = rng(a.num("seed", 1));
            let mut out = Out::create(a.get("out"));
            for _ in 0..a.num("hist", 1000) {
                out.put(&chain::exec_case(&chain::random_case(&mut rng)));
            }
            println!("events={}", out.lines);
            out.finish();
        }
        "config-case" => {
            println!("{}", cfgcase::run_case(&a));
        }
        "config-grid" => {
            let mut out = Out::create(a.get("out"));
            let parse = |s: &str| -> Vec<u64> { s.split(',').map(|x| x.parse().unwrap()).collect() };
            cfgcase::grid(&parse(a.get_or("counts", "0,1,2,3,4,7,20")), &parse(a.get_or("intervals", "0,500,999,1000,1500,2000,10000")), &mut out);
            println!("events={}", out.lines);
            out.finish();
        }
        "space-worker" => {
            space::worker(a.get("in"), a.num("from", 0) as usize, a.num("to", u32::MAX as u64) as usize);
        }
        "space-run" => {
            let mut out = Out::create(a.get("out"));
            space::run(a.get("in"), a.num("jobs", 12) as usize, &mut out);
            println!("events={}", out.lines);
            out.finish();
        }
        "mlog-replay" => {
            let mut out = Out::create(a.get("out"));
            let mut m = mlog::MLog::new(a.get("scratch"), a.num("seed", 1));
            for b in read_behaviours(a.get("in")) {
                out.put_all(&m.exec(&b));
            }
            println!("events={}", out.lines);
            out.finish();
        }
        "mlog-drive" => {
            let mut rng = rng(a.num("seed", 1));
            let mut out = Out::create(a.get("out"));
            let mut m = mlog::MLog::new(a.get("scratch"), a.num("seed", 1));
            for _ in 0..a.num("hist", 50) {
                let h = mlog::random_history(&mut rng, a.num("len", 8) as usize, a.get_or("crash", "sample"));
                out.put_all(&m.exec(&h));
            }
            println!("events={}", out.lines);
            out.finish();
        }
        "c14" => conc::run_c14(&a),
        "c16" => conc::run_c16(&a),
        "c15" => conc::run_c15(&a),
        "real-sleep" => {
            sentinel_core::verif::clock::off();
            let t = std::time::Instant::now();
            sentinel_core::utils::sleep_for_ms(a.num("ms", 20));
            println!("took_us={}", t.elapsed().as_micros());
        }
        "warm-replay" => {
            let mut out = Out::create(a.get("out"));
            let mut w = world::World::new();
            for b in read_behaviours(a.get("in")) {
                out.put_all(&w.exec(&warm::expand_profile(&b)));
            }
            println!("events={}", out.lines);
            out.finish();
        }
        "warm-drive" => {
            let mut rng = rng(a.num("seed", 1));
            let mut out = Out::create(a.get("out"));
            let mut w = world::World::new();
            for _ in 0..a.num("hist", 6) {
                out.put_all(&w.exec(&warm::random_history(&mut rng, a.num("small", 1) == 1)));
            }
            for k in 0..a.num("ramps", 0) {
                out.put_all(&w.exec(&warm::ramp_history(k as usize)));
            }
            println!("events={}", out.lines);
            out.finish();
        }
        "world-replay" => {
            let mut out = Out::create(a.get("out"));
            let mut w = world::World::new();
            for b in read_behaviours(a.get("in")) {
                out.put_all(&w.exec(&b));
            }
            println!("events={}", out.lines);
            out.finish();
        }
        "world-drive" => {
            let mut rng = rng(a.num("seed", 1));
            let mut out = Out::create(a.get("out"));
            let mut w = world::World::new();
            let len = a.num("len", 60) as usize;
            for _ in 0..a.num("hist", 100) {
                let h = match a.get("prop") {
                    "c01" => gens::c01(&mut rng, len),
                    "c03" => gens::c03(&mut rng, len),
                    "c04" => gens::c04(&mut rng, len),
                    "c05" => gens::c05(&mut rng, len),
                    "c06" => gens::c06(&mut rng, len),
                    "c09" => gens::c09(&mut rng, len),
                    "c10" => gens::c10(&mut rng, len),
                    "c11flow" => { let h = gens::c01(&mut rng, len); gens::with_reloads(&mut rng, h, "flow", "r1") }
                    "c11hot" => { let h = gens::c06(&mut rng, len); gens::with_reloads(&mut rng, h, "hot", "r1") }
                    "c11cb" => { let h = gens::c03(&mut rng, len); gens::with_reloads(&mut rng, h, "cb", "r1") }
                    "c11thr" => { let h = gens::c07(&mut rng, len); let h = gens::with_reloads(&mut rng, h, "flow", "r1"); gens::with_reloads(&mut rng, h, "hot", "r1") }
                    "c07" => gens::c07(&mut rng, len),
                    "c06lru" => gens::c06lru(&mut rng, len),
                    "c07lru" => gens::c07lru(&mut rng, len),
                    p => panic!("no generator for {}", p),
                };
                out.put_all(&w.exec(&h));
            }
            println!("events={}", out.lines);
            out.finish();
        }
        other => {
            eprintln!("unknown command {}", other);
            std::process::exit(2);
        }
    }
}
