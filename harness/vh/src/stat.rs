//! C02 driver: executes Stat events on the real leap array / sliding window / resource node.
use crate::util::*;
use rand::Rng;
use sentinel_core::base::{MetricEvent, ReadStat, ResourceType, WriteStat};
use sentinel_core::verif::{self, clock, stat::*};
use serde_json::{json, Value};
use std::sync::Arc;

const KINDS: [(&str, MetricEvent); 5] = [
    ("pass", MetricEvent::Pass),
    ("block", MetricEvent::Block),
    ("complete", MetricEvent::Complete),
    ("error", MetricEvent::Error),
    ("rt", MetricEvent::Rt),
];

fn kind(name: &str) -> MetricEvent {
    KINDS.iter().find(|(n, _)| *n == name).expect("kind").1
}

enum Target {
    Array(Arc<BucketLeapArray>),
    Node(Arc<ResourceNode>),
}

struct Sut {
    t0: u64,
    target: Target,
    arr: Arc<BucketLeapArray>,
    wins: Vec<(u64, Arc<dyn ReadStat>)>, // (J, reader)
    whole: Option<SlidingWindowMetric>,   // a window over the whole array, for the per-second aggregation
}

fn observe(sut: &Sut) -> (Value, Value) {
    let mut obs = Vec::new();
    for (j, w) in &sut.wins {
        let sums: Vec<u64> = KINDS.iter().map(|(_, k)| w.sum(*k)).collect();
        let qj: Vec<i64> = KINDS.iter().map(|(_, k)| (w.qps(*k) * *j as f64).round() as i64).collect();
        let pj: Vec<i64> =
            KINDS.iter().map(|(_, k)| (w.qps_previous(*k) * *j as f64).round() as i64).collect();
        let complete = sums[2].max(1);
        obs.push(json!({
            "sum": sums, "qj": qj, "pj": pj,
            "minrt": w.min_rt().round() as i64,
            "avgc": (w.avg_rt() * complete as f64).round() as i64,
        }));
    }
    let raw: Vec<u64> = KINDS.iter().map(|(_, k)| sut.arr.count(*k)).collect();
    (Value::Array(obs), json!(raw))
}

/// Execute one history (input events); returns the events with observations added.
pub fn exec(events: &[Value]) -> Vec<Value> {
    let mut out = Vec::new();
    let mut sut: Option<Sut> = None;
    for ev in events {
        let mut ev = ev.clone();
        match s(&ev, "e") {
            "reset" => {
                let n = u(&ev, "n") as u32;
                let iv = u(&ev, "I") as u32;
                let t0 = epoch_for(iv as u64);
                clock::set_ms(t0 + u(&ev, "t"));
                let as_node = ev.get("target").and_then(|t| t.as_str()) == Some("node");
                let built = guarded(|| {
                    if as_node {
                        let node = Arc::new(ResourceNode::new("c02".into(), ResourceType::Common));
                        let arr = verif::node_array(&node);
                        Ok((Target::Node(node), arr))
                    } else {
                        BucketLeapArray::new(n, iv).map(|a| {
                            let a = Arc::new(a);
                            (Target::Array(a.clone()), a)
                        })
                    }
                });
                match built {
                    Ok(Ok((target, arr))) => {
                        let mut wins = Vec::new();
                        let mut wl = ev["wins"].as_array().cloned().unwrap_or_default();
                        for w in wl.iter_mut() {
                            let (k, j) = (u(w, "k") as u32, u(w, "J") as u32);
                            let r: Result<Arc<dyn ReadStat>, String> = match &target {
                                Target::Node(node) if (k, j) == (node.metric_geometry()) => Ok(node.clone()),
                                _ => match guarded(|| SlidingWindowMetric::new(k, j, arr.clone())) {
                                    Ok(Ok(m)) => Ok(Arc::new(m)),
                                    Ok(Err(e)) => Err(e.to_string()),
                                    Err(p) => Err(format!("panic: {}", p)),
                                },
                            };
                            w["ok"] = json!(r.is_ok());
                            if let Ok(m) = r {
                                wins.push((j as u64, m));
                            }
                        }
                        ev["wins"] = Value::Array(wl);
                        ev["ok"] = json!(true);
                        let (n0, i0) = (arr.sample_count(), arr.interval_ms());
                        let whole = guarded(|| SlidingWindowMetric::new(n0, i0, arr.clone())).ok().and_then(|r| r.ok());
                        sut = Some(Sut { t0, target, arr, wins, whole });
                    }
                    _ => {
                        ev["ok"] = json!(false);
                        sut = None;
                    }
                }
            }
            "write" | "adv" => {
                let st = sut.as_ref().expect("event before reset");
                clock::set_ms(st.t0 + u(&ev, "t"));
                if s(&ev, "e") == "write" {
                    let (k, c) = (kind(s(&ev, "kind")), u(&ev, "c"));
                    let r = guarded(|| match &st.target {
                        Target::Array(a) => a.add_count(k, c),
                        Target::Node(nd) => nd.add_count(k, c),
                    });
                    if let Err(p) = r {
                        ev["panic"] = json!(p);
                    }
                }
                match guarded(|| observe(st)) {
                    Ok((obs, raw)) => {
                        ev["obs"] = obs;
                        ev["raw"] = raw;
                    }
                    Err(p) => ev["panic"] = json!(p),
                }
                // per-second aggregation (what the metric log is fed with): the active items, by second
                if let Some(w) = &st.whole {
                    match guarded(|| w.second_metrics_on_condition(&|_ts: u64| true)) {
                        Ok(items) => {
                            let mut v: Vec<(i64, Value)> = items
                                .iter()
                                .filter_map(|it| {
                                    let line = it.to_string();
                                    let c: Vec<&str> = line.split('|').collect();
                                    let g = |i: usize| c.get(i).and_then(|x| x.parse::<i64>().ok()).unwrap_or(-1);
                                    let ts = g(0) - st.t0 as i64;
                                    let (pass, block, complete, error, avg) = (g(3), g(4), g(5), g(6), g(7));
                                    if pass > 0 || block > 0 || complete > 0 || error > 0 || avg > 0 {
                                        Some((ts, json!({"ts": ts, "pass": pass, "block": block, "complete": complete, "error": error, "avg": avg})))
                                    } else {
                                        None
                                    }
                                })
                                .collect();
                            v.sort_by_key(|x| x.0);
                            ev["secs"] = Value::Array(v.into_iter().map(|x| x.1).collect());
                            ev["secoff"] = json!(st.t0 % 1000);
                        }
                        Err(p) => ev["panic"] = json!(p),
                    }
                }
            }
            "newarr" => {
                let r = guarded(|| BucketLeapArray::new(u(&ev, "n") as u32, u(&ev, "I") as u32).is_ok());
                match r {
                    Ok(ok) => ev["ok"] = json!(ok),
                    Err(p) => ev["panic"] = json!(p),
                }
            }
            "newwin" => {
                let (k, j, n, iv) = (u(&ev, "k") as u32, u(&ev, "J") as u32, u(&ev, "n") as u32, u(&ev, "I") as u32);
                let r = guarded(|| match BucketLeapArray::new(n, iv) {
                    Ok(a) => SlidingWindowMetric::new(k, j, Arc::new(a)).is_ok(),
                    Err(_) => false,
                });
                match r {
                    Ok(ok) => ev["ok"] = json!(ok),
                    Err(p) => ev["panic"] = json!(p),
                }
            }
            other => panic!("unknown stat event {}", other),
        }
        out.push(ev);
    }
    clock::off();
    out
}

trait MetricGeo {
    fn metric_geometry(&self) -> (u32, u32);
}
impl MetricGeo for Arc<ResourceNode> {
    fn metric_geometry(&self) -> (u32, u32) {
        let g = verif::node_geometry(self);
        (g.2, g.3)
    }
}

/// Random history for the I->S direction.
pub fn random_history(rng: &mut impl Rng, len: usize) -> Vec<Value> {
    let mut evs = Vec::new();
    let node = rng.gen_range(0..8) == 0;
    let (n, l): (u64, u64) = if node {
        (20, 500)
    } else {
        let n = rng.gen_range(1..=20u64);
        let l = match rng.gen_range(0..4) {
            0 => rng.gen_range(1..=5),
            1 => *[10u64, 50, 100, 250, 500, 1000].get(rng.gen_range(0..6)).unwrap(),
            _ => rng.gen_range(1..=1000),
        };
        (n, l)
    };
    let iv = n * l;
    // windows: some valid divisor pairs, some arbitrary (likely refused)
    let mut wins = Vec::new();
    let divs: Vec<u64> = (1..=n).filter(|d| n % d == 0).collect();
    for _ in 0..rng.gen_range(1..=3) {
        if rng.gen_range(0..4) > 0 {
            // J = I / d, bucket length of the window a multiple of l
            let d = divs[rng.gen_range(0..divs.len())];
            let j = iv / d; // = (n/d) * l
            let nb = n / d;
            let kdivs: Vec<u64> = (1..=nb).filter(|x| nb % x == 0).collect();
            let k = kdivs[rng.gen_range(0..kdivs.len())];
            wins.push(json!({"k": k, "J": j}));
        } else {
            wins.push(json!({"k": rng.gen_range(0..=n + 1), "J": rng.gen_range(0..=iv + l)}));
        }
    }
    if node {
        wins.insert(0, json!({"k": 2, "J": 1000}));
    }
    let mut t: u64 = rng.gen_range(0..3 * iv);
    let mut reset = json!({"e": "reset", "n": n, "I": iv, "t": t, "wins": wins});
    if node {
        reset["target"] = json!("node");
    }
    evs.push(reset);
    for _ in 0..len {
        let dt = match rng.gen_range(0..12) {
            0 | 1 | 2 => 0,
            3 => 1,
            4 => l - (t % l),                  // onto the next bucket boundary
            5 => (l - (t % l)).saturating_sub(1), // just before it
            6 => l,
            7 => iv - (t % iv),                // onto a multiple of the whole interval
            8 => iv,
            9 => iv + rng.gen_range(0..=2 * iv), // everything expires
            10 => rng.gen_range(0..=l),
            _ => rng.gen_range(0..=iv),
        };
        t += dt;
        if rng.gen_range(0..5) == 0 {
            evs.push(json!({"e": "adv", "t": t}));
        } else {
            let k = KINDS[rng.gen_range(0..5)].0;
            let c = if k == "rt" { if rng.gen_range(0..5) == 0 { 0 } else { rng.gen_range(0..=3000) } } else { rng.gen_range(0..=5) };
            evs.push(json!({"e": "write", "t": t, "kind": k, "c": c}));
        }
    }
    evs
}

/// The complete construction grid (k, J, n, I) in (0..=kmax) x jvals squared.
pub fn grid(kmax: u64, vals: &[u64]) -> Vec<Value> {
    let mut evs = Vec::new();
    for n in 0..=kmax {
        for &iv in vals {
            evs.push(json!({"e": "newarr", "n": n, "I": iv}));
            for k in 0..=kmax {
                for &j in vals {
                    evs.push(json!({"e": "newwin", "k": k, "J": j, "n": n, "I": iv}));
                }
            }
        }
    }
    evs
}
