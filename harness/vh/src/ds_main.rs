//! vh-ds — C18 driver: rules through serde_json + the real `datasource::rule_json_array_parser`,
//! metric items through `to_string` / `from_string`.  Inputs come from TLC (MC_Codec) and from a seeded
//! generator; observations are logged and judged by TLC (Codec.tla).  No expected values here.
#![allow(dead_code)]
mod util;
mod world;

use rand::Rng;
use sentinel_core::base::MetricItem;
use sentinel_core::datasource::rule_json_array_parser;
use sentinel_core::{circuitbreaker as cb, flow, hotspot, isolation, system};
use serde_json::{json, Map, Value};
use util::*;

/// abstract field -> JSON field of the family
fn json_name(fam: &str, f: &str) -> &'static str {
    match (fam, f) {
        (_, "id") => "id",
        ("sys", "metric") | ("hot", "metric") => "metric_type",
        ("sys", "strat") | ("cb", "strat") => "strategy",
        (_, "res") => "resource",
        (_, "ref") => "ref_resource",
        (_, "calc") => "calculate_strategy",
        (_, "ctl") => "control_strategy",
        (_, "rel") => "relation_strategy",
        (_, "thr") => "threshold",
        (_, "warm") => "warm_up_period_sec",
        (_, "cold") => "warm_up_cold_factor",
        (_, "maxq") => "max_queueing_time_ms",
        ("cb", "I") | ("flow", "I") => "stat_interval_ms",
        (_, "lmu") => "low_mem_usage_threshold",
        (_, "hmu") => "high_mem_usage_threshold",
        (_, "mlw") => "mem_low_water_mark",
        (_, "mhw") => "mem_high_water_mark",
        (_, "idx") => "param_index",
        (_, "key") => "param_key",
        (_, "burst") => "burst_count",
        (_, "dur") => "duration_in_sec",
        (_, "cap") => "params_max_capacity",
        (_, "spec") => "specific_items",
        (_, "retry") => "retry_timeout_ms",
        (_, "minreq") => "min_request_amount",
        (_, "nb") => "stat_sliding_window_bucket_count",
        (_, "maxrt") => "max_allowed_rt_ms",
        (a, b) => panic!("no json name for {} {}", a, b),
    }
}

/// f64 -> the rational the specification uses (smallest denominator first; 0 = NaN / infinities)
fn rat(x: f64) -> Value {
    if x.is_nan() {
        return json!([0, 0]);
    }
    if x.is_infinite() {
        return json!([if x > 0.0 { 1 } else { -1 }, 0]);
    }
    for d in [1i64, 2, 4, 8, 16, 3, 5, 10, 100] {
        let n = x * d as f64;
        if n.fract() == 0.0 && n.abs() < 2e9 {
            return json!([n as i64, d]);
        }
    }
    json!([(x * 1e6).round() as i64, 1_000_000])
}

/// values beyond TLC's integers are named (the same names the case generator uses)
fn big(x: u64) -> Value {
    if x <= 2_000_000_000 {
        json!(x)
    } else if x == u64::MAX {
        json!({"sym": "U64MAX"})
    } else if x == i64::MAX as u64 {
        json!({"sym": "I64MAX"})
    } else if x == (1u64 << 53) + 1 {
        json!({"sym": "P53P1"})
    } else {
        json!({"sym": format!("OTHER:{}", x)})
    }
}

fn proj_flow(r: &flow::Rule) -> Value {
    json!({"id": r.id, "res": r.resource, "ref": r.ref_resource,
        "calc": match r.calculate_strategy { flow::CalculateStrategy::Direct => "direct", flow::CalculateStrategy::WarmUp => "warmup",
                                             flow::CalculateStrategy::MemoryAdaptive => "mem", _ => "custom" },
        "ctl": match r.control_strategy { flow::ControlStrategy::Reject => "reject", flow::ControlStrategy::Throttling => "throttling", _ => "custom" },
        "rel": match r.relation_strategy { flow::RelationStrategy::Current => "current", _ => "associated" },
        "thr": rat(r.threshold), "warm": r.warm_up_period_sec, "cold": r.warm_up_cold_factor, "maxq": r.max_queueing_time_ms,
        "I": r.stat_interval_ms, "lmu": big(r.low_mem_usage_threshold), "hmu": big(r.high_mem_usage_threshold),
        "mlw": big(r.mem_low_water_mark), "mhw": big(r.mem_high_water_mark)})
}
fn proj_iso(r: &isolation::Rule) -> Value {
    json!({"id": r.id, "res": r.resource, "thr": r.threshold})
}
fn proj_hot(r: &hotspot::Rule) -> Value {
    let mut spec = Map::new();
    for (k, v) in &r.specific_items {
        spec.insert(k.clone(), json!(v));
    }
    json!({"id": r.id, "res": r.resource,
        "metric": match r.metric_type { hotspot::MetricType::Concurrency => "conc", _ => "qps" },
        "ctl": match r.control_strategy { hotspot::ControlStrategy::Reject => "reject", hotspot::ControlStrategy::Throttling => "throttling", _ => "custom" },
        "idx": r.param_index, "key": r.param_key, "thr": big(r.threshold), "maxq": r.max_queueing_time_ms, "burst": r.burst_count,
        "dur": r.duration_in_sec, "cap": r.params_max_capacity, "spec": Value::Object(spec)})
}
fn proj_cb(r: &cb::Rule) -> Value {
    json!({"id": r.id, "res": r.resource,
        "strat": match r.strategy { cb::BreakerStrategy::SlowRequestRatio => "slow", cb::BreakerStrategy::ErrorRatio => "eratio",
                                    cb::BreakerStrategy::ErrorCount => "ecount", _ => "custom" },
        "retry": r.retry_timeout_ms, "minreq": r.min_request_amount, "I": r.stat_interval_ms,
        "nb": r.stat_sliding_window_bucket_count, "maxrt": r.max_allowed_rt_ms, "thr": rat(r.threshold)})
}
fn proj_sys(r: &system::Rule) -> Value {
    json!({"id": r.id,
        "metric": match r.metric_type { system::MetricType::Load => "load", system::MetricType::AvgRT => "rt",
                                        system::MetricType::Concurrency => "conc", system::MetricType::InboundQPS => "qps", _ => "cpu" },
        "thr": rat(r.threshold),
        "strat": match r.strategy { system::AdaptiveStrategy::BBR => "bbr", _ => "none" }})
}

/// serialise, edit the document as the case says, parse with the real datasource parser, project
fn rule_case(c: &Value) -> Value {
    let mut out = c.clone();
    let fam = s(c, "fam").to_string();
    let id = |x: &str| x.to_string();
    macro_rules! go {
        ($build:expr, $ty:ty, $proj:expr) => {{
            let rule: $ty = $build(&c["rule"], &id);
            let ser = guarded(|| serde_json::to_value(&rule));
            match ser {
                Err(p) => { out["panic"] = json!(p); }
                Ok(Err(_)) => { out["ser"] = json!("err"); }
                Ok(Ok(Value::Object(doc))) => {
                    out["ser"] = json!("ok");
                    let mut fields: Vec<(String, Value)> = doc.into_iter().collect();
                    for f in c["drop"].as_array().unwrap() {
                        let jn = json_name(&fam, f.as_str().unwrap());
                        fields.retain(|(k, _)| k != jn);
                    }
                    let wrong = s(c, "wrong");
                    if !wrong.is_empty() {
                        let jn = json_name(&fam, wrong);
                        for (k, v) in fields.iter_mut() {
                            if k == jn {
                                // a value of another JSON type than the field has
                                *v = match v { Value::String(_) => json!(17), Value::Number(_) => json!("seventeen"),
                                               Value::Object(_) => json!([1]), _ => json!({"x": 1}) };
                            }
                        }
                    }
                    if c["rev"].as_bool().unwrap_or(false) {
                        fields.reverse();
                    }
                    // written by hand so that the field order is the one chosen
                    let text = format!("[{{{}}}]", fields.iter().map(|(k, v)| format!("{}:{}", serde_json::to_string(k).unwrap(), v)).collect::<Vec<_>>().join(","));
                    out["text"] = json!(text.chars().take(400).collect::<String>());
                    match guarded(|| rule_json_array_parser::<$ty>(&text)) {
                        Err(p) => { out["panic"] = json!(p); }
                        Ok(Err(_)) => { out["parse"] = json!("err"); }
                        Ok(Ok(rules)) => {
                            if rules.len() != 1 {
                                out["parse"] = json!("count");
                            } else {
                                out["parse"] = json!("ok");
                                out["got"] = $proj(&rules[0]);
                                out["eq"] = json!(*rules[0] == rule);
                                // serialising the parsed rule gives the same document again
                                out["again"] = json!(serde_json::to_value(&*rules[0]).ok() == serde_json::to_value(&rule).ok());
                            }
                        }
                    }
                }
                Ok(Ok(_)) => { out["ser"] = json!("notobject"); }
            }
        }};
    }
    match fam.as_str() {
        "flow" => go!(world::flow_rule, flow::Rule, proj_flow),
        "iso" => go!(world::iso_rule, isolation::Rule, proj_iso),
        "hot" => go!(world::hot_rule, hotspot::Rule, proj_hot),
        "cb" => go!(world::cb_rule, cb::Rule, proj_cb),
        _ => {
            let sys = |d: &Value, _rn: &dyn Fn(&str) -> String| world::sys_rule(d);
            go!(sys, system::Rule, proj_sys)
        }
    }
    out
}

/// metric items: fields -> line (Display) -> item (from_string) -> fields (Display again)
fn line_case(c: &Value) -> Value {
    let mut out = c.clone();
    let it = &c["item"];
    // an item can only be built from a line: write the input fields in the documented column order
    let res = s(it, "res");
    let safe = "x"; // the resource is set through the separator-free path below
    let _ = safe;
    let line0 = format!("{}|t|{}|{}|{}|{}|{}|{}|{}|{}|{}", s(it, "ts"), "PLACEHOLDER", s(it, "pass"), s(it, "block"), s(it, "complete"),
                        s(it, "error"), s(it, "rt"), s(it, "occupied"), s(it, "conc"), s(it, "rtype"));
    let r = guarded(|| -> Result<(String, Value), String> {
        let mut item = MetricItem::from_string(&line0).map_err(|e| e.to_string())?;
        sentinel_core::verif::set_metric_item_resource(&mut item, res);
        let line = item.to_string();
        let back = MetricItem::from_string(&line).map_err(|e| e.to_string())?;
        let cols: Vec<String> = back.to_string().split('|').map(|x| x.to_string()).collect();
        let g = |i: usize| cols.get(i).cloned().unwrap_or_default();
        Ok((line, json!({"ts": g(0), "res": sentinel_core::verif::metric_item_resource(&back), "pass": g(3), "block": g(4), "complete": g(5),
                         "error": g(6), "rt": g(7), "occupied": g(8), "conc": g(9), "rtype": g(10)})))
    });
    match r {
        Err(p) => out["panic"] = json!(p),
        Ok(Err(e)) => { out["parse"] = json!("err"); out["err"] = json!(e); }
        Ok(Ok((line, back))) => {
            out["parse"] = json!("ok");
            out["line"] = json!(line.chars().take(300).collect::<String>());
            out["back"] = back;
        }
    }
    out["expres"] = json!(res.replace('|', "_"));
    out
}

fn random_line_case(rng: &mut impl Rng) -> Value {
    let names = ["a", "GET /order", " padded ", "\u{3000}订单\u{3000}", "pipe|in|name", "|", "tab\tname", "", "x.y-z", "ünï©ode|ß"];
    let big = [0u64, 1, 7, 1_000_000_000, (1u64 << 53) + 1, i64::MAX as u64, u64::MAX - 1, u64::MAX];
    let mut n = |rng: &mut dyn rand::RngCore| big[(rng.next_u32() as usize) % big.len()].to_string();
    json!({"kind": "line", "item": {"ts": (1_700_000_000_000u64 + rng.gen_range(0..100_000_000u64)).to_string(), "res": names[rng.gen_range(0..names.len())],
        "pass": n(rng), "block": n(rng), "complete": n(rng), "error": n(rng), "rt": n(rng), "occupied": n(rng),
        "conc": rng.gen_range(0..=u32::MAX).to_string(), "rtype": rng.gen_range(0..=6u64).to_string()}})
}

/// byte-level robustness (outside what the specification can express): truncation at every byte and
/// random corruption of serialised documents must yield an error or a rule, never a panic
fn fuzz(rng: &mut impl Rng, n: usize) -> Value {
    let docs = [
        serde_json::to_string(&vec![flow::Rule { resource: "r|1".into(), threshold: 1.5, ..Default::default() }]).unwrap(),
        serde_json::to_string(&vec![hotspot::Rule { resource: "订单".into(), specific_items: [("a".to_string(), 1u64)].into_iter().collect(), ..Default::default() }]).unwrap(),
        serde_json::to_string(&vec![cb::Rule { resource: "r".into(), threshold: 0.5, ..Default::default() }]).unwrap(),
    ];
    let mut panics = Vec::new();
    let mut tried = 0u64;
    for (di, d) in docs.iter().enumerate() {
        let b = d.as_bytes();
        let mut variants: Vec<Vec<u8>> = (0..b.len()).map(|k| b[..k].to_vec()).collect();
        for _ in 0..n {
            let mut v = b.to_vec();
            for _ in 0..rng.gen_range(1..4) {
                let i = rng.gen_range(0..v.len());
                v[i] = rng.gen();
            }
            variants.push(v);
        }
        for v in variants {
            tried += 1;
            let text = String::from_utf8_lossy(&v).to_string();
            let r = match di {
                0 => guarded(|| rule_json_array_parser::<flow::Rule>(&text).is_ok()),
                1 => guarded(|| rule_json_array_parser::<hotspot::Rule>(&text).is_ok()),
                _ => guarded(|| rule_json_array_parser::<cb::Rule>(&text).is_ok()),
            };
            if let Err(p) = r {
                panics.push(json!({"doc": di, "text": text.chars().take(120).collect::<String>(), "panic": p}));
            }
            let r = guarded(|| MetricItem::from_string(&text).is_ok());
            if let Err(p) = r {
                panics.push(json!({"line": text.chars().take(120).collect::<String>(), "panic": p}));
            }
        }
    }
    json!({"tried": tried, "panics": panics})
}

fn main() {
    let argv: Vec<String> = std::env::args().collect();
    let a = Args::parse(&argv[2..]);
    std::panic::set_hook(Box::new(|_| {}));
    match argv[1].as_str() {
        "codec-replay" => {
            let mut out = Out::create(a.get("out"));
            for b in read_behaviours(a.get("in")) {
                for c in &b {
                    out.put(&rule_case(c));
                }
            }
            let mut rng = rng(a.num("seed", 1));
            for _ in 0..a.num("lines", 500) {
                out.put(&line_case(&random_line_case(&mut rng)));
            }
            println!("events={}", out.lines);
            out.finish();
        }
        "prop-replay" => {
            // DefaultPropertyHandler over the real converter and the flow manager as updater
            use sentinel_core::datasource::{DefaultPropertyHandler, PropertyHandler};
            let mut out = Out::create(a.get("out"));
            for b in read_behaviours(a.get("in")) {
                let mut h = DefaultPropertyHandler::<flow::Rule>::new(rule_json_array_parser::<flow::Rule>, |rules| Ok(flow::load_rules(rules)));
                for ev in &b {
                    let mut ev = ev.clone();
                    match s(&ev, "e") {
                        "reset" => {
                            flow::clear_rules();
                            ev["ok"] = json!(true);
                        }
                        "handle" => {
                            let id = |x: &str| x.to_string();
                            let doc: Option<String> = match s(&ev, "kind") {
                                "none" => None,
                                "bad" => Some("[{\"resource\": 17".to_string()),
                                _ => {
                                    let rules: Vec<flow::Rule> = ev["rules"].as_array().unwrap().iter().map(|d| world::flow_rule(d, &id)).collect();
                                    Some(serde_json::to_string(&rules).unwrap())
                                }
                            };
                            let r = guarded(|| std::sync::Arc::get_mut(&mut h).unwrap().handle(doc.as_ref()));
                            ev["ret"] = match r {
                                Ok(Ok(b)) => json!(b.to_string()),
                                Ok(Err(_)) => json!("err"),
                                Err(p) => {
                                    ev["panic"] = json!(p);
                                    json!("panic")
                                }
                            };
                            let mut ids: Vec<String> = flow::get_rules().iter().map(|r| r.id.clone()).collect();
                            ids.sort();
                            ev["after"] = json!(ids);
                        }
                        other => panic!("unknown event {}", other),
                    }
                    out.put(&ev);
                }
            }
            println!("events={}", out.lines);
            out.finish();
        }
        "codec-fuzz" => {
            let mut rng = rng(a.num("seed", 1));
            println!("{}", fuzz(&mut rng, a.num("n", 300) as usize));
        }
        other => {
            eprintln!("unknown command {}", other);
            std::process::exit(2);
        }
    }
}
