//! Deterministic cooperative scheduler over real OS threads (C14, C15, C16).
//!
//! The code under test runs unmodified apart from the guarded sync shims (`sentinel_core::verif::sync`),
//! with the real `std` locks underneath.  The shims report every lock acquisition / release and atomic
//! access of the controlled threads; at these points the scheduler decides which thread goes on, so an
//! execution is a sequence of decisions that can be enumerated (depth-first with a preemption bound),
//! drawn at random, or replayed.  The scheduler keeps its own table of lock ownership and only ever
//! releases a thread into an acquisition it knows will succeed, so no controlled thread blocks inside
//! `std`; "every unfinished thread waits for a lock" is therefore decided here and is the deadlock
//! verdict.  Readers queue behind a waiting writer, as `std`'s futex RwLock makes them do.
use sentinel_core::verif::sync::{self, Event, Hook, Op};
use serde_json::{json, Value};
use std::cell::Cell;
use std::collections::HashMap;
use std::sync::{Arc, Condvar, Mutex};
use std::time::{Duration, Instant};

thread_local! {
    static TID: Cell<Option<usize>> = Cell::new(None);
}

#[derive(Clone, Debug)]
pub struct Pending {
    pub op: Op,
    pub obj: usize,
    pub site: String,
}

#[derive(Clone, Copy, PartialEq, Debug)]
enum Status {
    NotStarted,
    Waiting, // parked at a point
    Running,
    Done,
}

struct Th {
    status: Status,
    pending: Option<Pending>,
    points: u64,
}

#[derive(Default, Clone, Debug)]
struct LockSt {
    writer: Option<usize>,
    readers: Vec<usize>,
}

/// one decision of the search tree
#[derive(Clone, Debug)]
pub struct Node {
    pub candidates: Vec<usize>,
    pub chosen: usize,
    pub tried: Vec<usize>,
    pub prev: Option<usize>, // the thread that ran before this decision
    pub preempt_before: u32,
}

pub enum Strategy {
    /// follow `plan`, then run the previous thread on if possible, else the lowest enabled one
    Dfs,
    /// follow `plan`, then choose by random priorities that change at `change_points` decisions (PCT)
    Random { seed: u64, depth: u32 },
}

#[derive(Debug, Clone, PartialEq)]
pub enum Verdict {
    Completed,
    Deadlock(Vec<String>),
    Stuck(String), // tool error: a running thread did not reach its next point
}

struct St {
    threads: Vec<Th>,
    current: Option<usize>,
    locks: HashMap<usize, LockSt>,
    plan: Vec<usize>,
    nodes: Vec<Node>,
    last_run: Option<usize>,
    preemptions: u32,
    verdict: Option<Verdict>,
    prio: Vec<u64>,
    change_at: Vec<usize>,
    rng_state: u64,
    random: bool,
    diverged: u32,
    events: Vec<Value>,
    record_events: bool,
    last_progress: Instant,
}

pub struct Sched {
    st: Mutex<St>,
    cv: Condvar,
    /// which points are choice points (others are passed through unless the thread must wait)
    filter: Box<dyn Fn(&Pending) -> bool + Send + Sync>,
}

fn site_str(ev: &Event) -> String {
    match ev.site {
        Some(l) => {
            let f = l.file();
            let f = f.rsplit("sentinel-core/src/").next().unwrap_or(f);
            format!("{}:{}", f, l.line())
        }
        None => String::new(),
    }
}

fn is_acquire(op: Op) -> bool {
    matches!(op, Op::Lock | Op::Read | Op::Write)
}

impl St {
    fn enabled(&self, t: usize) -> bool {
        let th = &self.threads[t];
        if th.status != Status::Waiting {
            return false;
        }
        let p = match &th.pending {
            Some(p) => p,
            None => return true,
        };
        let l = self.locks.get(&p.obj);
        match p.op {
            Op::Lock | Op::Write => match l {
                None => true,
                Some(l) => l.writer.is_none() && l.readers.is_empty(),
            },
            Op::Read => {
                let free = match l {
                    None => true,
                    Some(l) => l.writer.is_none(),
                };
                // a writer already waiting for this lock goes first (std's RwLock prefers writers);
                // "already waiting" = another thread is parked at a write request on the same lock
                // while the lock is read-held
                let writer_waiting = self.threads.iter().enumerate().any(|(u, o)| {
                    u != t
                        && o.status == Status::Waiting
                        && o.pending.as_ref().map(|q| q.obj == p.obj && matches!(q.op, Op::Write | Op::Lock)).unwrap_or(false)
                        && l.map(|l| !l.readers.is_empty()).unwrap_or(false)
                });
                free && !writer_waiting
            }
            _ => true,
        }
    }

    fn next_rand(&mut self) -> u64 {
        // xorshift64*
        let mut x = self.rng_state;
        x ^= x >> 12;
        x ^= x << 25;
        x ^= x >> 27;
        self.rng_state = x;
        x.wrapping_mul(0x2545F4914F6CDD1D)
    }

    /// choose the thread that runs next; None = nothing can run
    fn choose(&mut self) -> Option<usize> {
        let cands: Vec<usize> = (0..self.threads.len()).filter(|t| self.enabled(*t)).collect();
        if cands.is_empty() {
            return None;
        }
        let idx = self.nodes.len();
        let prev = self.last_run;
        let default = if self.random {
            if self.change_at.contains(&idx) {
                // priority change point: the running thread drops to the lowest priority
                if let Some(p) = prev {
                    self.prio[p] = self.next_rand() % 1000;
                }
            }
            *cands.iter().max_by_key(|t| self.prio[**t]).unwrap()
        } else if prev.map(|p| cands.contains(&p)).unwrap_or(false) {
            prev.unwrap()
        } else {
            cands[0]
        };
        let chosen = if idx < self.plan.len() {
            if cands.contains(&self.plan[idx]) {
                self.plan[idx]
            } else {
                self.diverged += 1;
                default
            }
        } else {
            default
        };
        let preempt = prev.map(|p| cands.contains(&p) && p != chosen).unwrap_or(false);
        self.nodes.push(Node { candidates: cands, chosen, tried: vec![chosen], prev, preempt_before: self.preemptions });
        if preempt {
            self.preemptions += 1;
        }
        Some(chosen)
    }

    fn dispatch(&mut self) {
        // called with the lock held by a thread that is about to wait (or has finished)
        match self.choose() {
            Some(t) => {
                self.current = Some(t);
                self.last_run = Some(t);
                self.last_progress = Instant::now();
            }
            None => {
                self.current = None;
                if self.threads.iter().all(|t| t.status == Status::Done) {
                    self.verdict = Some(Verdict::Completed);
                } else {
                    let waiting: Vec<String> = self
                        .threads
                        .iter()
                        .enumerate()
                        .filter(|(_, t)| t.status == Status::Waiting)
                        .map(|(i, t)| {
                            let p = t.pending.as_ref().unwrap();
                            let holder = self.locks.get(&p.obj).map(|l| format!("{:?}/{:?}", l.writer, l.readers)).unwrap_or_default();
                            format!("T{} waits for {:?} {} held by {}", i, p.op, p.site, holder)
                        })
                        .collect();
                    self.verdict = Some(Verdict::Deadlock(waiting));
                }
            }
        }
    }
}

impl Sched {
    pub fn new(filter: Box<dyn Fn(&Pending) -> bool + Send + Sync>) -> Arc<Sched> {
        Arc::new(Sched {
            st: Mutex::new(St {
                threads: Vec::new(),
                current: None,
                locks: HashMap::new(),
                plan: Vec::new(),
                nodes: Vec::new(),
                last_run: None,
                preemptions: 0,
                verdict: None,
                prio: Vec::new(),
                change_at: Vec::new(),
                rng_state: 1,
                random: false,
                diverged: 0,
                events: Vec::new(),
                record_events: false,
                last_progress: Instant::now(),
            }),
            cv: Condvar::new(),
            filter,
        })
    }

    fn point(&self, ev: &Event) {
        let t = match TID.with(|c| c.get()) {
            Some(t) => t,
            None => return,
        };
        let p = Pending { op: ev.op, obj: ev.obj, site: site_str(ev) };
        let mut st = self.st.lock().unwrap();
        if st.verdict.is_some() {
            // the execution was given up (deadlock / stuck): park for good; the process is about to exit
            drop(st);
            loop {
                std::thread::sleep(Duration::from_secs(3600));
            }
        }
        st.threads[t].points += 1;
        if st.record_events {
            st.events.push(json!({"th": t, "op": format!("{:?}", p.op), "site": p.site, "obj": p.obj}));
        }
        let choice = (self.filter)(&p);
        st.threads[t].pending = Some(p);
        st.threads[t].status = Status::Waiting;
        if !choice && st.enabled(t) {
            // not a scheduling point and nothing to wait for: go on
            st.threads[t].status = Status::Running;
            st.threads[t].pending = None;
            st.last_progress = Instant::now();
            return;
        }
        st.dispatch();
        self.cv.notify_all();
        while st.current != Some(t) {
            if st.verdict.is_some() {
                drop(st);
                loop {
                    std::thread::sleep(Duration::from_secs(3600));
                }
            }
            st = self.cv.wait(st).unwrap();
        }
        st.threads[t].status = Status::Running;
        st.threads[t].pending = None;
    }

    fn after_ev(&self, ev: &Event, ok: bool) {
        let t = match TID.with(|c| c.get()) {
            Some(t) => t,
            None => return,
        };
        let mut st = self.st.lock().unwrap();
        let l = st.locks.entry(ev.obj).or_default();
        match ev.op {
            Op::Lock | Op::Write | Op::TryLock | Op::TryWrite if ok => l.writer = Some(t),
            Op::Read | Op::TryRead if ok => l.readers.push(t),
            Op::Unlock => l.writer = None,
            Op::UnlockRead => {
                if let Some(i) = l.readers.iter().position(|x| *x == t) {
                    l.readers.remove(i);
                }
            }
            _ => {}
        }
        if st.record_events && matches!(ev.op, Op::Unlock | Op::UnlockRead) {
            st.events.push(json!({"th": t, "op": format!("{:?}", ev.op), "site": site_str(ev), "obj": ev.obj}));
        }
        let _ = is_acquire(ev.op);
        st.last_progress = Instant::now();
    }

    /// Runs one execution: `bodies[i]` is the program of thread i.  Returns the verdict, the decisions
    /// taken and (if requested) the recorded synchronisation events.
    pub fn run(
        self: &Arc<Sched>,
        bodies: Vec<Box<dyn FnOnce() + Send>>,
        plan: Vec<usize>,
        strategy: &Strategy,
        record_events: bool,
    ) -> (Verdict, Vec<Node>, Vec<Value>, u32) {
        let n = bodies.len();
        {
            let mut st = self.st.lock().unwrap();
            st.threads = (0..n).map(|_| Th { status: Status::NotStarted, pending: None, points: 0 }).collect();
            st.current = None;
            st.locks.clear();
            st.plan = plan;
            st.nodes.clear();
            st.last_run = None;
            st.preemptions = 0;
            st.verdict = None;
            st.diverged = 0;
            st.events.clear();
            st.record_events = record_events;
            st.last_progress = Instant::now();
            match strategy {
                Strategy::Dfs => {
                    st.random = false;
                }
                Strategy::Random { seed, depth } => {
                    st.random = true;
                    st.rng_state = seed.wrapping_mul(0x9E3779B97F4A7C15) | 1;
                    st.prio = (0..n).map(|_| 0).collect();
                    for i in 0..n {
                        st.prio[i] = 1000 + st.next_rand() % 1000;
                    }
                    st.change_at = (0..*depth).map(|_| (st.next_rand() % 400) as usize).collect();
                }
            }
        }
        let mut handles = Vec::new();
        for (i, body) in bodies.into_iter().enumerate() {
            let me = self.clone();
            handles.push(std::thread::spawn(move || {
                TID.with(|c| c.set(Some(i)));
                sync::set_thread_active(true);
                // the start of a thread is its first point
                {
                    let mut st = me.st.lock().unwrap();
                    st.threads[i].status = Status::Waiting;
                    st.threads[i].pending = None;
                    me.cv.notify_all();
                    while st.current != Some(i) {
                        if st.verdict.is_some() {
                            return;
                        }
                        st = me.cv.wait(st).unwrap();
                    }
                    st.threads[i].status = Status::Running;
                }
                let r = std::panic::catch_unwind(std::panic::AssertUnwindSafe(body));
                let _ = r;
                sync::set_thread_active(false);
                let mut st = me.st.lock().unwrap();
                st.threads[i].status = Status::Done;
                st.threads[i].pending = None;
                if st.verdict.is_none() {
                    st.dispatch();
                }
                me.cv.notify_all();
            }));
        }
        // wait until every thread is parked at its start, then let the first decision be taken
        {
            let mut st = self.st.lock().unwrap();
            while st.threads.iter().any(|t| t.status == Status::NotStarted) {
                st = self.cv.wait_timeout(st, Duration::from_millis(50)).unwrap().0;
            }
            st.dispatch();
            self.cv.notify_all();
            // wait for the end, watching for a thread that never reaches its next point
            loop {
                if st.verdict.is_some() {
                    break;
                }
                let (g, _) = self.cv.wait_timeout(st, Duration::from_millis(200)).unwrap();
                st = g;
                if st.verdict.is_none() && st.last_progress.elapsed() > Duration::from_secs(20) {
                    let who = st.current.map(|c| format!("T{}", c)).unwrap_or_default();
                    st.verdict = Some(Verdict::Stuck(format!("{} did not reach its next point within 20 s", who)));
                    break;
                }
            }
        }
        let (verdict, nodes, events, diverged) = {
            let mut st = self.st.lock().unwrap();
            (st.verdict.clone().unwrap(), st.nodes.clone(), std::mem::take(&mut st.events), st.diverged)
        };
        if verdict == Verdict::Completed {
            for h in handles {
                let _ = h.join();
            }
        }
        (verdict, nodes, events, diverged)
    }
}

pub struct HookImpl(pub Arc<Sched>);
impl Hook for HookImpl {
    fn before(&self, ev: &Event) {
        self.0.point(ev)
    }
    fn after(&self, ev: &Event, ok: bool) {
        self.0.after_ev(ev, ok)
    }
}

pub fn install(s: &Arc<Sched>) {
    sync::install(Arc::new(HookImpl(s.clone())));
}

/// Depth-first enumeration of schedules with a preemption bound.  `exec(plan)` runs one execution and
/// returns its decision nodes; the closure is called until the tree is exhausted, `max_runs` is reached
/// or it returns false.
pub struct Dfs {
    pub stack: Vec<Node>,
    pub bound: u32,
    pub runs: u64,
}

impl Dfs {
    pub fn new(bound: u32) -> Dfs {
        Dfs { stack: Vec::new(), bound, runs: 0 }
    }
    /// merge the nodes of the execution just run (its prefix follows the stack) and compute the next plan
    pub fn next_plan(&mut self, nodes: &[Node]) -> Option<Vec<usize>> {
        self.runs += 1;
        // keep the tried sets of the common prefix, take the rest from this execution
        let keep = self.stack.len().min(nodes.len());
        let mut merged: Vec<Node> = Vec::with_capacity(nodes.len());
        for i in 0..nodes.len() {
            if i < keep && self.stack[i].chosen == nodes[i].chosen && self.stack[i].candidates == nodes[i].candidates {
                let mut nd = nodes[i].clone();
                nd.tried = self.stack[i].tried.clone();
                merged.push(nd);
            } else {
                merged.push(nodes[i].clone());
            }
        }
        self.stack = merged;
        // deepest node with an untried alternative inside the preemption budget
        while let Some(top) = self.stack.last().cloned() {
            let i = self.stack.len() - 1;
            let alt = top.candidates.iter().cloned().find(|c| {
                if top.tried.contains(c) {
                    return false;
                }
                let preempt = top.prev.map(|p| top.candidates.contains(&p) && p != *c).unwrap_or(false);
                top.preempt_before + (preempt as u32) <= self.bound
            });
            match alt {
                Some(c) => {
                    self.stack[i].tried.push(c);
                    self.stack[i].chosen = c;
                    let plan: Vec<usize> = self.stack.iter().map(|n| n.chosen).collect();
                    return Some(plan);
                }
                None => {
                    self.stack.pop();
                }
            }
        }
        None
    }
}
