//! C12 driver: one case = one rule of the rule space, one loading call, a fixed set of entry
//! shapes, a health probe.  Cases run in worker processes (a poisoned manager must not spoil the
//! rest); a worker that finds itself unhealthy reports the case and exits, the parent restarts
//! one behind it.
use crate::util::*;
use crate::world::World;
use serde_json::{json, Value};
use std::io::Write;

struct FmtLogger;
impl log::Log for FmtLogger {
    fn enabled(&self, _m: &log::Metadata) -> bool {
        true
    }
    fn log(&self, r: &log::Record) {
        // format every record, as an enabled logger would (Display / Debug impls run)
        let _ = format!("{}", r.args());
    }
    fn flush(&self) {}
}
static LOGGER: FmtLogger = FmtLogger;

pub fn install_logger() {
    let _ = log::set_logger(&LOGGER);
    log::set_max_level(log::LevelFilter::Trace);
}

fn entry_shapes() -> Vec<Value> {
    vec![
        json!({"res": "r1", "n": 1}),
        json!({"res": "r1", "n": 1, "args": []}),
        json!({"res": "r1", "n": 1, "args": ["a"]}),
        json!({"res": "r1", "n": 2, "args": ["a", "b", "c", "d"]}),
        json!({"res": "r1", "n": 1, "att": {"k": "a"}, "args": ["b"]}),
        json!({"res": "r1", "n": 0}),
        json!({"res": "r1", "n": 1000000, "args": ["a"]}),
        json!({"res": "r1", "n": 1, "in": true}),
        json!({"res": "", "n": 1, "args": ["a"]}),
    ]
}

pub fn exec_case(w: &mut World, case: &Value) -> Value {
    let fam = s(case, "fam");
    let mut evs = vec![json!({"e": "reset", "t": 0, "obs": 0, "cfg": {"nt": 20, "It": 10000, "n": 2, "I": 1000}})];
    // the resource a related rule may point at exists
    evs.push(json!({"e": "enter", "id": 900, "res": "r1b", "n": 1, "t": 0}));
    evs.push(json!({"e": "exit", "id": 900, "t": 0}));
    if case["populated"].as_bool().unwrap_or(false) {
        let base = match fam {
            "flow" => json!({"id": "base", "res": "r1", "thr": [5, 1], "I": 0}),
            "iso" => json!({"id": "base", "res": "r1", "thr": 5}),
            "hot" => json!({"id": "base", "res": "r1", "metric": "conc", "thr": 5, "idx": 0}),
            "cb" => json!({"id": "base", "res": "r1", "strat": "ecount", "retry": 1000, "minreq": 5, "I": 1000, "nb": 1, "thr": [5, 1]}),
            _ => json!({"id": "base", "metric": "conc", "thr": [1000, 1]}),
        };
        evs.push(json!({"e": "load", "fam": fam, "op": "append", "t": 0, "rules": [base]}));
    }
    // an invalid sibling of the rule was given for the resource before (refused, changes nothing): what a
    // loading call remembers of refused rules must never come back through a later call
    if !case["populated"].as_bool().unwrap_or(false) && case["op"] == "append" && fam != "sys" {
        let mut bad = case["rule"].clone();
        bad["id"] = json!("bad");
        match fam {
            "flow" => bad["thr"] = json!([-1, 1]),
            "iso" => bad["thr"] = json!(0),
            "hot" => { bad["metric"] = json!("qps"); bad["dur"] = json!(0); }
            _ => bad["I"] = json!(0),
        }
        evs.push(json!({"e": "load", "fam": fam, "op": "res", "res": "r1", "t": 0, "rules": [bad]}));
    }
    let load_idx = evs.len();
    evs.push(json!({"e": "load", "fam": fam, "op": case["op"], "res": case["res"], "t": 0, "rules": [case["rule"]]}));
    let first_entry = evs.len();
    for (i, sh) in entry_shapes().iter().enumerate() {
        let mut e = sh.clone();
        e["e"] = json!("enter");
        e["id"] = json!(i as u64 + 1);
        e["t"] = json!(1 + i as u64);
        evs.push(e);
        evs.push(json!({"e": "exit", "id": i as u64 + 1, "t": 2 + i as u64}));
    }
    // the same rule again after time has passed (token buckets refill, windows roll, waits elapse): the large
    // batch first, since the first request after a gap takes the refill paths
    let mut t = 20u64;
    let mut id = 100u64;
    for gap in [1300u64, 3100, 61_000] {
        t += gap;
        for k in [6usize, 3, 0] {
            let mut e = entry_shapes()[k].clone();
            id += 1;
            e["e"] = json!("enter");
            e["id"] = json!(id);
            e["t"] = json!(t);
            evs.push(e);
            evs.push(json!({"e": "exit", "id": id, "t": t + 1}));
            t += 2;
        }
    }
    // the rule is replaced, through another loading call, by a variant with the other control strategy /
    // breaker strategy / threshold while its counters are in use: the same requests again, at once
    {
        let mut var = case["rule"].clone();
        var["id"] = json!("var");
        match fam {
            "flow" | "hot" => var["ctl"] = json!(if var.get("ctl").and_then(|x| x.as_str()).unwrap_or("reject") == "reject" { "throttling" } else { "reject" }),
            "cb" => var["strat"] = json!(if var.get("strat").and_then(|x| x.as_str()).unwrap_or("slow") == "ecount" { "eratio" } else { "ecount" }),
            _ => var["thr"] = json!(7),
        }
        let op2 = if case["op"] == "all" { "res" } else { "all" };
        t += 5;
        evs.push(json!({"e": "load", "fam": fam, "op": op2, "res": "r1", "t": t, "rules": [var]}));
        for k in [2usize, 6, 3, 0] {
            let mut e = entry_shapes()[k].clone();
            id += 1;
            e["e"] = json!("enter");
            e["id"] = json!(id);
            e["t"] = json!(t);
            evs.push(e);
            evs.push(json!({"e": "exit", "id": id, "t": t + 1}));
        }
        t += 2;
    }
    evs.push(json!({"e": "health", "t": t + 100}));
    let out = w.exec(&evs);
    let mut c = case.clone();
    let ld = &out[load_idx];
    for k in ["ret", "after", "panic", "panic_after"] {
        if let Some(v) = ld.get(k) {
            c[k] = v.clone();
        }
    }
    let mut entries = Vec::new();
    let mut i = first_entry;
    while i + 1 < out.len() {
        if out[i]["e"] != "enter" {
            // the second loading call: it must not panic either
            if out[i].get("panic").is_some() || out[i].get("panic_after").is_some() {
                entries.push(json!({"r": "panic", "exit": "ok", "bt": "load"}));
            }
            i += 1;
            continue;
        }
        let ex = if out[i + 1].get("panic").is_some() { "panic" } else { "ok" };
        entries.push(json!({"r": out[i]["r"], "exit": ex, "bt": out[i].get("bt").cloned().unwrap_or(json!(""))}));
        i += 2;
    }
    c["entries"] = json!(entries);
    c["health"] = out.last().unwrap()["health"].clone();
    c
}

/// worker: cases[from..], one JSON line per case on stdout; exits 3 right after an unhealthy case
pub fn worker(path: &str, from: usize, to: usize) {
    install_logger();
    let cases = read_behaviours(path);
    let mut w = World::new();
    let stdout = std::io::stdout();
    for b in cases.iter().take(to).skip(from) {
        let c = exec_case(&mut w, &b[0]);
        let bad = c["health"] != "ok";
        let mut o = stdout.lock();
        serde_json::to_writer(&mut o, &c).unwrap();
        o.write_all(b"\n").unwrap();
        o.flush().unwrap();
        if bad {
            std::process::exit(3);
        }
    }
}

/// parent: runs the cases in `jobs` worker slices, restarting behind an unhealthy case
pub fn run(path: &str, jobs: usize, out: &mut Out) {
    let n = read_behaviours(path).len();
    let exe = std::env::current_exe().unwrap();
    let chunk = (n + jobs - 1) / jobs.max(1);
    let mut handles = Vec::new();
    for j in 0..jobs {
        let (lo, hi) = (j * chunk, ((j + 1) * chunk).min(n));
        if lo >= hi {
            continue;
        }
        let (exe, path) = (exe.clone(), path.to_string());
        handles.push(std::thread::spawn(move || {
            let mut results: Vec<Value> = Vec::new();
            let mut pos = lo;
            let mut hangs = 0usize;
            let cases = read_behaviours(&path);
            // three hanging cases decide the run (each costs the watchdog's 40 s): the rest of the slice is left
            while pos < hi && hangs < 3 {
                // the worker's lines are read through a channel so that a case that never returns (a hang is
                // not a panic) is noticed: 40 s without a line = the case at `pos` hangs
                use std::io::BufRead;
                let mut child = std::process::Command::new(&exe)
                    .args(["space-worker", "--in", &path, "--from", &pos.to_string(), "--to", &hi.to_string()])
                    .stdout(std::process::Stdio::piped())
                    .stderr(std::process::Stdio::null())
                    .spawn()
                    .expect("spawn worker");
                let stdout = child.stdout.take().unwrap();
                let (tx, rx) = std::sync::mpsc::channel::<Option<Value>>();
                let reader = std::thread::spawn(move || {
                    for l in std::io::BufReader::new(stdout).lines() {
                        match l {
                            Ok(l) => {
                                if let Ok(v) = serde_json::from_str::<Value>(&l) {
                                    if tx.send(Some(v)).is_err() {
                                        return;
                                    }
                                }
                            }
                            Err(_) => break,
                        }
                    }
                    let _ = tx.send(None);
                });
                let mut got = 0usize;
                let mut hung = false;
                loop {
                    match rx.recv_timeout(std::time::Duration::from_secs(40)) {
                        Ok(Some(v)) => {
                            if pos + got < hi {
                                results.push(v);
                                got += 1;
                            }
                        }
                        Ok(None) => break,
                        Err(_) => {
                            hung = true;
                            let _ = child.kill();
                            break;
                        }
                    }
                }
                let status = child.wait().ok();
                let _ = reader.join();
                pos += got;
                if hung {
                    hangs += 1;
                    if pos < hi {
                        let mut c = cases[pos][0].clone();
                        c["hang"] = json!(true);
                        c["health"] = json!("bad:hang");
                        c["entries"] = json!([]);
                        results.push(c);
                        pos += 1;
                    }
                    continue;
                }
                if status.map(|s| s.success()).unwrap_or(false) {
                    break;
                }
                if got == 0 {
                    // the worker died before reporting the case at `pos`: record it as a crash
                    results.push(json!({"crash": true, "index": pos, "health": "bad:worker died", "entries": [], "fam": "?", "op": "?", "res": "", "rule": {"id": "?"}}));
                    pos += 1;
                }
            }
            results
        }));
    }
    for h in handles {
        out.put_all(&h.join().unwrap());
    }
}
