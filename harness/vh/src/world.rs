//! The "world" executor: runs one history of API-level events (rule loads, entries, exits, clock
//! steps) against the real global slot chain and rule managers, and logs what it observes after
//! every step.  It contains no expected values; TLC judges the log.
use crate::util::*;
use sentinel_core::base::{
    BlockType, ConcurrencyStat, EntryStrongPtr, MetricEvent, ReadStat, SentinelRule, TrafficType,
};
use sentinel_core::verif::{self, clock, recorder};
use sentinel_core::{circuitbreaker as cb, config, flow, hotspot, isolation, stat, system, EntryBuilder};
use serde_json::{json, Map, Value};
use std::collections::{BTreeMap, BTreeSet, HashMap};
use std::sync::{Arc, Mutex};

const KINDS: [MetricEvent; 5] =
    [MetricEvent::Pass, MetricEvent::Block, MetricEvent::Complete, MetricEvent::Error, MetricEvent::Rt];

/// Numbers in rule descriptors: an integer, a rational [num, den] or a symbol {"sym": ".."}.
pub fn num(v: &Value) -> f64 {
    match v {
        Value::Number(n) => n.as_f64().unwrap(),
        Value::Array(a) => a[0].as_f64().unwrap() / a[1].as_f64().unwrap(),
        Value::Object(o) => match o["sym"].as_str().unwrap() {
            "NaN" => f64::NAN,
            "Inf" => f64::INFINITY,
            "-Inf" => f64::NEG_INFINITY,
            "U64MAX" => u64::MAX as f64,
            "U32MAX" => u32::MAX as f64,
            s => panic!("unknown symbol {}", s),
        },
        _ => panic!("bad number {}", v),
    }
}
fn unum(v: &Value) -> u64 {
    match v {
        Value::Object(o) => match o["sym"].as_str().unwrap() {
            "U64MAX" => u64::MAX,
            "U32MAX" => u32::MAX as u64,
            "I64MAX" => i64::MAX as u64,
            "P53P1" => (1u64 << 53) + 1,
            s => panic!("unknown symbol {}", s),
        },
        _ => v.as_u64().unwrap_or_else(|| panic!("bad unsigned {}", v)),
    }
}
fn gu(v: &Value, k: &str, d: u64) -> u64 {
    v.get(k).map(unum).unwrap_or(d)
}
fn gs<'a>(v: &'a Value, k: &str, d: &'a str) -> &'a str {
    v.get(k).and_then(|x| x.as_str()).unwrap_or(d)
}

pub fn flow_rule(d: &Value, rn: &dyn Fn(&str) -> String) -> flow::Rule {
    flow::Rule {
        id: gs(d, "id", "").to_string(),
        resource: rn(gs(d, "res", "")),
        ref_resource: rn(gs(d, "ref", "")),
        calculate_strategy: match gs(d, "calc", "direct") {
            "direct" => flow::CalculateStrategy::Direct,
            "warmup" => flow::CalculateStrategy::WarmUp,
            "mem" => flow::CalculateStrategy::MemoryAdaptive,
            _ => flow::CalculateStrategy::Custom(gu(d, "calcn", 1) as u8),
        },
        control_strategy: match gs(d, "ctl", "reject") {
            "reject" => flow::ControlStrategy::Reject,
            "throttling" => flow::ControlStrategy::Throttling,
            _ => flow::ControlStrategy::Custom(gu(d, "ctln", 1) as u8),
        },
        relation_strategy: match gs(d, "rel", "current") {
            "current" => flow::RelationStrategy::Current,
            _ => flow::RelationStrategy::Associated,
        },
        threshold: d.get("thr").map(num).unwrap_or(0.0),
        warm_up_period_sec: gu(d, "warm", 0) as u32,
        warm_up_cold_factor: gu(d, "cold", 0) as u32,
        max_queueing_time_ms: gu(d, "maxq", 0) as u32,
        stat_interval_ms: gu(d, "I", 0) as u32,
        low_mem_usage_threshold: gu(d, "lmu", 0),
        high_mem_usage_threshold: gu(d, "hmu", 0),
        mem_low_water_mark: gu(d, "mlw", 0),
        mem_high_water_mark: gu(d, "mhw", 0),
    }
}

pub fn iso_rule(d: &Value, rn: &dyn Fn(&str) -> String) -> isolation::Rule {
    isolation::Rule {
        id: gs(d, "id", "").to_string(),
        resource: rn(gs(d, "res", "")),
        metric_type: isolation::MetricType::Concurrency,
        threshold: gu(d, "thr", 0) as u32,
    }
}

pub fn hot_rule(d: &Value, rn: &dyn Fn(&str) -> String) -> hotspot::Rule {
    let mut spec = HashMap::new();
    if let Some(o) = d.get("spec").and_then(|s| s.as_object()) {
        for (k, v) in o {
            spec.insert(k.clone(), unum(v));
        }
    }
    hotspot::Rule {
        id: gs(d, "id", "").to_string(),
        resource: rn(gs(d, "res", "")),
        metric_type: match gs(d, "metric", "conc") {
            "conc" => hotspot::MetricType::Concurrency,
            _ => hotspot::MetricType::QPS,
        },
        control_strategy: match gs(d, "ctl", "reject") {
            "reject" => hotspot::ControlStrategy::Reject,
            "throttling" => hotspot::ControlStrategy::Throttling,
            _ => hotspot::ControlStrategy::Custom(gu(d, "ctln", 1) as u8),
        },
        param_index: d.get("idx").and_then(|x| x.as_i64()).unwrap_or(0) as isize,
        param_key: gs(d, "key", "").to_string(),
        threshold: gu(d, "thr", 0),
        max_queueing_time_ms: gu(d, "maxq", 0),
        burst_count: gu(d, "burst", 0),
        duration_in_sec: gu(d, "dur", 0),
        params_max_capacity: gu(d, "cap", 0) as usize,
        specific_items: spec,
    }
}

pub fn cb_rule(d: &Value, rn: &dyn Fn(&str) -> String) -> cb::Rule {
    cb::Rule {
        id: gs(d, "id", "").to_string(),
        resource: rn(gs(d, "res", "")),
        strategy: match gs(d, "strat", "slow") {
            "slow" => cb::BreakerStrategy::SlowRequestRatio,
            "eratio" => cb::BreakerStrategy::ErrorRatio,
            "ecount" => cb::BreakerStrategy::ErrorCount,
            _ => cb::BreakerStrategy::Custom(gu(d, "stratn", 1) as u8),
        },
        retry_timeout_ms: gu(d, "retry", 0) as u32,
        min_request_amount: gu(d, "minreq", 0),
        stat_interval_ms: gu(d, "I", 0) as u32,
        stat_sliding_window_bucket_count: gu(d, "nb", 0) as u32,
        max_allowed_rt_ms: gu(d, "maxrt", 0),
        threshold: d.get("thr").map(num).unwrap_or(0.0),
    }
}

pub fn sys_rule(d: &Value) -> system::Rule {
    system::Rule {
        id: gs(d, "id", "").to_string(),
        metric_type: match gs(d, "metric", "load") {
            "load" => system::MetricType::Load,
            "rt" => system::MetricType::AvgRT,
            "conc" => system::MetricType::Concurrency,
            "qps" => system::MetricType::InboundQPS,
            _ => system::MetricType::CpuUsage,
        },
        threshold: d.get("thr").map(num).unwrap_or(0.0),
        strategy: match gs(d, "strat", "none") {
            "bbr" => system::AdaptiveStrategy::BBR,
            _ => system::AdaptiveStrategy::NoAdaptive,
        },
    }
}

#[derive(Default)]
struct ListenerLog {
    recs: Mutex<Vec<Value>>,
}
struct Listener {
    log: Arc<ListenerLog>,
    recs_of: Arc<Mutex<HashMap<usize, Value>>>,
}
impl Listener {
    fn rec(&self, kind: &str, prev: cb::State, rule: &Arc<cb::Rule>) {
        let mut r = json!({"to": kind, "prev": state_name(prev), "rule": rule.id});
        if let Some(d) = self.recs_of.lock().unwrap().get(&addr(rule)) {
            r["rec"] = d.clone();
        }
        self.log.recs.lock().unwrap().push(r);
    }
}
fn state_name(s: cb::State) -> &'static str {
    match s {
        cb::State::Closed => "closed",
        cb::State::HalfOpen => "halfopen",
        cb::State::Open => "open",
    }
}
impl cb::StateChangeListener for Listener {
    fn on_transform_to_closed(&self, prev: cb::State, rule: Arc<cb::Rule>) {
        self.rec("closed", prev, &rule)
    }
    fn on_transform_to_open(&self, prev: cb::State, rule: Arc<cb::Rule>, _s: Option<Arc<sentinel_core::base::Snapshot>>) {
        self.rec("open", prev, &rule)
    }
    fn on_transform_to_half_open(&self, prev: cb::State, rule: Arc<cb::Rule>) {
        self.rec("halfopen", prev, &rule)
    }
    fn on_circuit_breaker_drop(&self, _prev: cb::State, _rule: Arc<cb::Rule>) {}
}

/// Process-wide monotone epoch: each history starts well after the previous one ended.
static LAST_ABS_MS: Mutex<u64> = Mutex::new(0);
static HIST_NO: Mutex<u64> = Mutex::new(0);

pub struct World {
    t0: u64,
    hid: u64,
    fresh_names: bool,
    entries: BTreeMap<u64, EntryStrongPtr>,
    resources: BTreeSet<String>, // abstract names
    rule_ptrs: HashMap<usize, String>, // Arc data pointer -> rule id
    rule_recs: Arc<Mutex<HashMap<usize, Value>>>, // Arc data pointer -> the rule description it was built from
    listener_log: Arc<ListenerLog>,
    obs_level: u8,
}

fn addr<T: ?Sized>(a: &Arc<T>) -> usize {
    Arc::as_ptr(a) as *const () as usize
}

impl World {
    pub fn new() -> World {
        World {
            t0: 0,
            hid: 0,
            fresh_names: true,
            entries: BTreeMap::new(),
            resources: BTreeSet::new(),
            rule_ptrs: HashMap::new(),
            rule_recs: Arc::new(Mutex::new(HashMap::new())),
            listener_log: Arc::new(ListenerLog::default()),
            obs_level: 1,
        }
    }

    fn rn(&self, abs: &str) -> String {
        if abs.is_empty() || !self.fresh_names {
            abs.to_string()
        } else {
            format!("{}#{}", abs, self.hid)
        }
    }

    fn abs_name(&self, conc: &str) -> String {
        match conc.rfind('#') {
            Some(i) if self.fresh_names => conc[..i].to_string(),
            _ => conc.to_string(),
        }
    }

    pub fn clear_all(&mut self) {
        for (_, e) in std::mem::take(&mut self.entries) {
            let _ = guarded(|| e.exit());
        }
        let _ = guarded(|| flow::clear_rules());
        let _ = guarded(|| isolation::clear_rules());
        let _ = guarded(|| hotspot::clear_rules());
        let _ = guarded(|| cb::clear_rules());
        let _ = guarded(|| system::clear_rules());
        let _ = guarded(|| cb::clear_state_change_listeners());
        let _ = guarded(|| stat::reset_resource_map());
        verif::system::set_system_load(0.0);
        verif::system::set_cpu_usage(0.0);
        verif::system::set_memory_usage(0);
        self.rule_ptrs.clear();
        self.rule_recs.lock().unwrap().clear();
        self.resources.clear();
        let _ = recorder::take_last();
        let _ = clock::take_sleeps();
    }

    fn set_clock(&self, ev: &mut Value) {
        let t = u(ev, "t");
        let sub = ev.get("tn").and_then(|x| x.as_u64()).unwrap_or(0);
        let ns = (self.t0 + t) * 1_000_000 + sub;
        // the clock never goes back: an event requested for an instant that has already passed
        // (the previous call slept) happens now, and is logged with the instant it happened at
        match clock::now_ns() {
            Some(c) if c > ns => {
                let rel = c - self.t0 * 1_000_000;
                ev["t"] = json!(rel / 1_000_000);
                ev["tn"] = json!(rel % 1_000_000);
            }
            _ => clock::set_ns(ns),
        }
    }

    fn reset(&mut self, ev: &mut Value) {
        self.clear_all();
        {
            let mut h = HIST_NO.lock().unwrap();
            *h += 1;
            self.hid = *h;
        }
        self.fresh_names = ev.get("fresh").and_then(|x| x.as_bool()).unwrap_or(true);
        self.obs_level = ev.get("obs").and_then(|x| x.as_u64()).unwrap_or(1) as u8;
        // configuration (thread-local in the code under test: the harness thread)
        let mut ce = config::ConfigEntity::new();
        if let Some(c) = ev.get("cfg") {
            ce.config.stat.sample_count_total = gu(c, "nt", 20) as u32;
            ce.config.stat.interval_ms_total = gu(c, "It", 10000) as u32;
            ce.config.stat.sample_count = gu(c, "n", 2) as u32;
            ce.config.stat.interval_ms = gu(c, "I", 1000) as u32;
        }
        let align = lcm(
            gu(ev, "align", 1).max(1),
            lcm(ce.config.stat.interval_ms_total as u64, lcm(ce.config.stat.interval_ms as u64, 10000)),
        );
        config::reset_global_config(ce);
        let mut last = LAST_ABS_MS.lock().unwrap();
        let after = (*last).max(T0_BASE) + 60_000 + 3 * align;
        self.t0 = ((after + align - 1) / align) * align;
        *last = self.t0;
        drop(last);
        clock::set_ns((self.t0 + u(ev, "t")) * 1_000_000);
        self.listener_log = Arc::new(ListenerLog::default());
        cb::register_state_change_listeners(vec![Arc::new(Listener {
            log: self.listener_log.clone(),
            recs_of: self.rule_recs.clone(),
        })]);
        ev["ok"] = json!(true);
    }

    fn load(&mut self, ev: &mut Value) {
        let fam = s(ev, "fam").to_string();
        let op = gs(ev, "op", "all").to_string();
        let res = self.rn(gs(ev, "res", ""));
        let descs: Vec<Value> = ev.get("rules").and_then(|r| r.as_array()).cloned().unwrap_or_default();
        for d in &descs {
            if let Some(r) = d.get("res").and_then(|x| x.as_str()) {
                if !r.is_empty() {
                    self.resources.insert(r.to_string());
                }
            }
        }
        if !gs(ev, "res", "").is_empty() {
            self.resources.insert(gs(ev, "res", "").to_string());
        }
        let this: &World = self;
        let rn = |a: &str| this.rn(a);
        let mut ptrs: Vec<(usize, String)> = Vec::new();
        let mut recs: Vec<(usize, Value)> = Vec::new();
        macro_rules! family {
            ($m:ident, $mk:expr, $has_res:expr) => {{
                let rules: Vec<Arc<$m::Rule>> = descs.iter().map(|d| Arc::new($mk(d))).collect();
                for (r, d) in rules.iter().zip(descs.iter()) {
                    ptrs.push((addr(r), r.id.clone()));
                    recs.push((addr(r), d.clone()));
                }
                guarded(|| -> Value {
                    match op.as_str() {
                        "all" => json!(format!("{:?}", $m::load_rules(rules))),
                        "append" => {
                            let mut rets = Vec::new();
                            for r in rules {
                                rets.push(format!("{:?}", $m::append_rule(r)));
                            }
                            json!(rets.join(","))
                        }
                        "clear" => {
                            $m::clear_rules();
                            json!("()")
                        }
                        other => $has_res(other, &res, rules),
                    }
                })
            }};
        }
        let ret = match fam.as_str() {
            "flow" => family!(flow, |d| flow_rule(d, &rn), |o: &str, res: &String, rules| match o {
                "res" => match flow::load_rules_of_resource(res, rules) {
                    Ok(b) => json!(format!("{:?}", b)),
                    Err(_) => json!("err"),
                },
                _ => {
                    flow::clear_rules_of_resource(res);
                    json!("()")
                }
            }),
            "iso" => family!(isolation, |d| iso_rule(d, &rn), |o: &str, res: &String, rules| match o {
                "res" => match isolation::load_rules_of_resource(res, rules) {
                    Ok(b) => json!(format!("{:?}", b)),
                    Err(_) => json!("err"),
                },
                _ => {
                    isolation::clear_rules_of_resource(res);
                    json!("()")
                }
            }),
            "hot" => family!(hotspot, |d| hot_rule(d, &rn), |o: &str, res: &String, rules| match o {
                "res" => match hotspot::load_rules_of_resource(res, rules) {
                    Ok(b) => json!(format!("{:?}", b)),
                    Err(_) => json!("err"),
                },
                _ => {
                    hotspot::clear_rules_of_resource(res);
                    json!("()")
                }
            }),
            "cb" => family!(cb, |d| cb_rule(d, &rn), |o: &str, res: &String, rules| match o {
                "res" => match cb::load_rules_of_resource(res, rules) {
                    Ok(b) => json!(format!("{:?}", b)),
                    Err(_) => json!("err"),
                },
                _ => {
                    cb::clear_rules_of_resource(res);
                    json!("()")
                }
            }),
            "sys" => family!(system, |d| sys_rule(d), |_o: &str, _res: &String, _rules: Vec<Arc<system::Rule>>| json!("unsupported")),
            other => panic!("unknown family {}", other),
        };
        for (p, id) in ptrs {
            self.rule_ptrs.insert(p, id);
        }
        for (p, d) in recs {
            self.rule_recs.lock().unwrap().insert(p, d);
        }
        match ret {
            Ok(v) => ev["ret"] = v,
            Err(p) => ev["panic"] = json!(p),
        }
        // what the manager reports afterwards
        match guarded(|| self.rule_listing(&fam)) {
            Ok(v) => ev["after"] = v,
            Err(p) => ev["panic_after"] = json!(p),
        }
    }

    /// ids reported by get_rules / get_rules_of_resource of one family
    fn rule_listing(&self, fam: &str) -> Value {
        let mut per: Map<String, Value> = Map::new();
        let sorted = |mut v: Vec<String>| {
            v.sort();
            v
        };
        let all: Vec<String> = match fam {
            "flow" => {
                for r in &self.resources {
                    per.insert(r.clone(), json!(sorted(flow::get_rules_of_resource(&self.rn(r)).iter().map(|x| x.id.clone()).collect())));
                }
                flow::get_rules().iter().map(|x| x.id.clone()).collect()
            }
            "iso" => {
                for r in &self.resources {
                    per.insert(r.clone(), json!(sorted(isolation::get_rules_of_resource(&self.rn(r)).iter().map(|x| x.id.clone()).collect())));
                }
                isolation::get_rules().iter().map(|x| x.id.clone()).collect()
            }
            "hot" => {
                for r in &self.resources {
                    per.insert(r.clone(), json!(sorted(hotspot::get_rules_of_resource(&self.rn(r)).iter().map(|x| x.id.clone()).collect())));
                }
                hotspot::get_rules().iter().map(|x| x.id.clone()).collect()
            }
            "cb" => {
                for r in &self.resources {
                    per.insert(r.clone(), json!(sorted(cb::get_rules_of_resource(&self.rn(r)).iter().map(|x| x.id.clone()).collect())));
                }
                cb::get_rules().iter().map(|x| x.id.clone()).collect()
            }
            _ => system::get_rules().iter().map(|x| x.id.clone()).collect(),
        };
        json!({"all": sorted(all), "res": per})
    }

    fn enter(&mut self, ev: &mut Value) {
        let id = u(ev, "id");
        let res_abs = s(ev, "res").to_string();
        self.resources.insert(res_abs.clone());
        let mut b = EntryBuilder::new(self.rn(&res_abs)).with_batch_count(gu(ev, "n", 1) as u32);
        if ev.get("in").and_then(|x| x.as_bool()).unwrap_or(false) {
            b = b.with_traffic_type(TrafficType::Inbound);
        }
        if let Some(k) = ev.get("kind").and_then(|x| x.as_u64()) {
            use sentinel_core::base::ResourceType as RT;
            b = b.with_resource_type([RT::Common, RT::Web, RT::RPC, RT::APIGateway, RT::DBSQL, RT::Cache, RT::MQ][k as usize % 7]);
        }
        if let Some(a) = ev.get("args").and_then(|x| x.as_array()) {
            b = b.with_args(Some(a.iter().map(|x| x.as_str().unwrap().to_string()).collect()));
        }
        if let Some(a) = ev.get("att").and_then(|x| x.as_object()) {
            b = b.with_attachments(Some(a.iter().map(|(k, v)| (k.clone(), v.as_str().unwrap().to_string())).collect()));
        }
        let _ = recorder::take_last();
        let _ = clock::take_sleeps();
        let before = clock::now_ns().unwrap_or(0);
        let r = guarded(|| b.build());
        let after = clock::now_ns().unwrap_or(0);
        ev["dt"] = json!((after - before).min(2_000_000_000));
        ev["dtms"] = json!((after - before) / 1_000_000);
        ev["dtsub"] = json!((after - before) % 1_000_000);
        ev["sleeps"] = json!(clock::take_sleeps());
        match r {
            Ok(Ok(entry)) => {
                ev["r"] = json!("pass");
                self.entries.insert(id, entry);
            }
            Ok(Err(err)) => {
                ev["r"] = json!("block");
                ev["msg"] = json!(err.to_string().chars().take(160).collect::<String>());
            }
            Err(p) => {
                ev["r"] = json!("panic");
                ev["panic"] = json!(p);
            }
        }
        match recorder::take_last() {
            recorder::Last::Blocked(be) => {
                ev["bt"] = json!(block_type_name(be.block_type()));
                ev["chain"] = json!("block");
                if let Some(rule) = be.triggered_rule() {
                    ev["rule"] = json!(self.rule_ptrs.get(&addr(&rule)).cloned().unwrap_or_else(|| "?".into()));
                    ev["rule_res"] = json!(self.abs_name(&rule.resource_name()));
                    // the description the reported rule object was built from: an equal rule reloaded
                    // under another id keeps its controller, so the id alone does not name it
                    if let Some(d) = self.rule_recs.lock().unwrap().get(&addr(&rule)) {
                        ev["rule_rec"] = d.clone();
                    }
                } else {
                    ev["rule"] = json!("none");
                }
                if let Some(sv) = be.triggered_value() {
                    let any = sv.as_any();
                    let milli: Option<i64> = if let Some(x) = any.downcast_ref::<f64>() {
                        Some((x * 1000.0).round() as i64)
                    } else if let Some(x) = any.downcast_ref::<u32>() {
                        Some(*x as i64 * 1000)
                    } else if let Some(x) = any.downcast_ref::<u64>() {
                        Some((*x).min(2_000_000) as i64 * 1000)
                    } else if let Some(x) = any.downcast_ref::<i32>() {
                        Some(*x as i64 * 1000)
                    } else {
                        None
                    };
                    if let Some(m) = milli {
                        ev["snap"] = json!(m);
                    }
                }
            }
            recorder::Last::Pass => ev["chain"] = json!("pass"),
            recorder::Last::None => ev["chain"] = json!("none"),
        }
    }

    fn exit(&mut self, ev: &mut Value) {
        let id = u(ev, "id");
        if let Some(e) = self.entries.remove(&id) {
            if ev.get("err").and_then(|x| x.as_bool()).unwrap_or(false) {
                sentinel_core::api::trace_error(&e, sentinel_core::Error::msg("verif error"));
            }
            let c0 = recorder::completed();
            match guarded(|| e.exit()) {
                Ok(()) => ev["done"] = json!(recorder::completed() - c0),
                Err(p) => ev["panic"] = json!(p),
            }
        } else {
            ev["skipped"] = json!(true);
        }
    }

    fn node_obs(node: &Arc<verif::stat::ResourceNode>) -> Value {
        let sums: Vec<u64> = KINDS.iter().map(|k| node.sum(*k)).collect();
        let complete = sums[2].max(1);
        json!({
            "sum": sums,
            "conc": node.current_concurrency(),
            "avgc": (node.avg_rt() * complete as f64).round() as i64,
            "minrt": node.min_rt().round() as i64,
            "qps": (node.qps(MetricEvent::Pass) * 1000.0).round() as i64,
        })
    }

    fn observe(&self, ev: &mut Value) {
        if self.obs_level == 0 {
            return;
        }
        let r = guarded(|| {
            let mut nodes = Map::new();
            let mut cbs = Map::new();
            for r in &self.resources {
                let name = self.rn(r);
                match stat::get_resource_node(&name) {
                    Some(n) => nodes.insert(r.clone(), Self::node_obs(&n)),
                    None => None,
                };
                let brs = cb::get_breakers_of_resource(&name);
                if !brs.is_empty() {
                    let l: Vec<Value> = brs
                        .iter()
                        .map(|b| {
                            let nr = b.next_retry_timestamp_ms();
                            let mut o = json!({"rule": b.bound_rule().id, "st": state_name(b.current_state()),
                                   "retry": if nr == 0 { -1 } else { nr as i64 - self.t0 as i64 }});
                            if let Some(d) = self.rule_recs.lock().unwrap().get(&addr(b.bound_rule())) {
                                o["rec"] = d.clone();
                            }
                            o
                        })
                        .collect();
                    cbs.insert(r.clone(), Value::Array(l));
                }
            }
            (nodes, cbs)
        });
        match r {
            Ok((nodes, cbs)) => {
                ev["nodes"] = Value::Object(nodes);
                if !cbs.is_empty() {
                    ev["cb"] = Value::Object(cbs);
                }
                if self.obs_level >= 2 {
                    ev["inb"] = Self::node_obs(&stat::inbound_node());
                }
            }
            Err(p) => ev["panic_obs"] = json!(p),
        }
        let recs = std::mem::take(&mut *self.listener_log.recs.lock().unwrap());
        ev["lis"] = Value::Array(recs);
    }

    /// Every manager still answers queries and accepts updates, and an unrelated entry can be built.
    fn health(&mut self) -> String {
        let hid = self.hid;
        let checks: Vec<(&str, Box<dyn Fn()>)> = vec![
            ("flow", Box::new(|| { let _ = flow::get_rules(); let _ = flow::load_rules(vec![]); flow::clear_rules(); })),
            ("iso", Box::new(|| { let _ = isolation::get_rules(); isolation::load_rules(vec![]); isolation::clear_rules(); })),
            ("hot", Box::new(|| { let _ = hotspot::get_rules(); let _ = hotspot::load_rules(vec![]); hotspot::clear_rules(); })),
            ("cb", Box::new(|| { let _ = cb::get_rules(); let _ = cb::load_rules(vec![]); cb::clear_rules(); })),
            ("sys", Box::new(|| { let _ = system::get_rules(); system::load_rules(vec![]); system::clear_rules(); })),
            ("entry", Box::new(move || {
                if let Ok(e) = EntryBuilder::new(format!("health#{}", hid)).build() { e.exit(); }
            })),
        ];
        for (name, f) in checks {
            if let Err(p) = guarded(|| f()) {
                return format!("bad:{}:{}", name, p.chars().take(80).collect::<String>());
            }
        }
        "ok".into()
    }

    /// Execute one history; returns the events with observations added.
    pub fn exec(&mut self, events: &[Value]) -> Vec<Value> {
        let mut out = Vec::new();
        for ev in events {
            let mut ev = ev.clone();
            match s(&ev, "e") {
                "reset" => self.reset(&mut ev),
                "load" => {
                    self.set_clock(&mut ev);
                    self.load(&mut ev)
                }
                "enter" => {
                    self.set_clock(&mut ev);
                    self.enter(&mut ev)
                }
                "exit" => {
                    self.set_clock(&mut ev);
                    self.exit(&mut ev)
                }
                "adv" => self.set_clock(&mut ev),
                "health" => {
                    self.set_clock(&mut ev);
                    ev["health"] = json!(self.health());
                }
                "probe" => {
                    // enforcement probe: one entry of n tokens, exited at once if admitted
                    self.set_clock(&mut ev);
                    ev["id"] = json!(u64::MAX / 2);
                    self.enter(&mut ev);
                    if let Some(e) = self.entries.remove(&(u64::MAX / 2)) {
                        let _ = guarded(|| e.exit());
                    }
                    ev.as_object_mut().unwrap().remove("id");
                }
                "sysload" => {
                    self.set_clock(&mut ev);
                    verif::system::set_system_load(num(&ev["v"]));
                }
                "syscpu" => {
                    self.set_clock(&mut ev);
                    verif::system::set_cpu_usage(num(&ev["v"]) as f32);
                }
                "sysmem" => {
                    self.set_clock(&mut ev);
                    verif::system::set_memory_usage(u(&ev, "v"));
                }
                other => panic!("unknown world event {}", other),
            }
            if s(&ev, "e") != "reset" {
                self.observe(&mut ev);
            }
            out.push(ev);
        }
        self.clear_all();
        if let Some(ns) = clock::now_ns() {
            let mut last = LAST_ABS_MS.lock().unwrap();
            *last = (*last).max(ns / 1_000_000 + 1);
        }
        clock::off();
        out
    }
}

pub fn block_type_name(b: BlockType) -> String {
    match b {
        BlockType::Unknown => "unknown".into(),
        BlockType::Flow => "flow".into(),
        BlockType::Isolation => "isolation".into(),
        BlockType::CircuitBreaking => "cb".into(),
        BlockType::SystemFlow => "system".into(),
        BlockType::HotSpotParamFlow => "hotspot".into(),
        BlockType::Other(k) => format!("other{}", k),
    }
}
