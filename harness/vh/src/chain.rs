//! C13 driver: builds a custom SlotChain from recording slots and runs one entry through it
//! (EntryBuilder::with_slot_chain, then exit).  Logs the calls the slots receive.
use crate::util::*;
use rand::Rng;
use sentinel_core::base::{
    BaseSlot, BlockError, BlockType, EntryContext, RuleCheckSlot, SlotChain, StatPrepareSlot, StatSlot, TokenResult,
};
use sentinel_core::EntryBuilder;
use serde_json::{json, Value};
use std::sync::{Arc, Mutex};

type Log = Arc<Mutex<Vec<Value>>>;

struct Pre { name: String, order: u32, log: Log }
struct Chk { name: String, order: u32, res: String, bt: u8, log: Log }
struct St { name: String, order: u32, log: Log }

impl BaseSlot for Pre { fn order(&self) -> u32 { self.order } }
impl BaseSlot for Chk { fn order(&self) -> u32 { self.order } }
impl BaseSlot for St { fn order(&self) -> u32 { self.order } }

impl StatPrepareSlot for Pre {
    fn prepare(&self, _ctx: &mut EntryContext) {
        self.log.lock().unwrap().push(json!({"k": "prepare", "name": self.name}));
    }
}
impl RuleCheckSlot for Chk {
    fn check(&self, _ctx: &mut EntryContext) -> TokenResult {
        self.log.lock().unwrap().push(json!({"k": "check", "name": self.name}));
        match self.res.as_str() {
            "block" => TokenResult::new_blocked_with_msg(BlockType::Other(self.bt), self.name.clone()),
            "wait" => TokenResult::new_should_wait(0),
            _ => TokenResult::new_pass(),
        }
    }
}
impl StatSlot for St {
    fn on_entry_pass(&self, _ctx: &EntryContext) {
        self.log.lock().unwrap().push(json!({"k": "pass", "name": self.name}));
    }
    fn on_entry_blocked(&self, _ctx: &EntryContext, e: BlockError) {
        self.log.lock().unwrap().push(json!({"k": "blocked", "name": self.name, "err": e.block_msg()}));
    }
    fn on_completed(&self, _ctx: &mut EntryContext) {
        self.log.lock().unwrap().push(json!({"k": "completed", "name": self.name}));
    }
}

pub fn exec_case(case: &Value) -> Value {
    let mut c = case.clone();
    let log: Log = Arc::new(Mutex::new(Vec::new()));
    let r = guarded(|| {
        let mut sc = SlotChain::new();
        for s in case["pre"].as_array().unwrap() {
            sc.add_stat_prepare_slot(Arc::new(Pre { name: s["name"].as_str().unwrap().into(), order: u(s, "order") as u32, log: log.clone() }));
        }
        for s in case["chk"].as_array().unwrap() {
            sc.add_rule_check_slot(Arc::new(Chk {
                name: s["name"].as_str().unwrap().into(), order: u(s, "order") as u32,
                res: s["res"].as_str().unwrap().into(), bt: u(s, "bt") as u8, log: log.clone(),
            }));
        }
        for s in case["st"].as_array().unwrap() {
            sc.add_stat_slot(Arc::new(St { name: s["name"].as_str().unwrap().into(), order: u(s, "order") as u32, log: log.clone() }));
        }
        let built = EntryBuilder::new("c13".into()).with_slot_chain(Arc::new(sc)).build();
        let entry_log = std::mem::take(&mut *log.lock().unwrap());
        let (build, err) = match &built {
            Ok(_) => ("ok", "none".to_string()),
            Err(e) => {
                // the delivered error names the slot that produced it (block_msg)
                let m = e.to_string();
                let name = m.split("block_msg: \"").nth(1).and_then(|x| x.split('"').next()).unwrap_or("?").to_string();
                ("err", name)
            }
        };
        if let Ok(e) = built {
            e.exit();
        }
        let exit_log = std::mem::take(&mut *log.lock().unwrap());
        (entry_log, build.to_string(), err, exit_log)
    });
    match r {
        Ok((el, b, e, xl)) => {
            c["log"] = json!(el);
            c["build"] = json!(b);
            c["err"] = json!(e);
            c["exitlog"] = json!(xl);
        }
        Err(p) => {
            c["panic"] = json!(p);
            c["log"] = json!([]);
            c["build"] = json!("panic");
            c["err"] = json!("none");
            c["exitlog"] = json!([]);
        }
    }
    c
}

pub fn random_case(rng: &mut impl Rng) -> Value {
    let mk = |rng: &mut dyn rand::RngCore, prefix: &str, n: usize, chk: bool| -> Vec<Value> {
        (0..n)
            .map(|i| {
                let order = [0u64, 1, 2, 5, 1000, 1000, 2_000_000_000][rand::Rng::gen_range(rng, 0..7)];
                if chk {
                    let res = ["pass", "pass", "wait", "block"][rand::Rng::gen_range(rng, 0..4)];
                    json!({"name": format!("{}{}", prefix, i + 1), "order": order, "res": res, "bt": i + 1})
                } else {
                    json!({"name": format!("{}{}", prefix, i + 1), "order": order})
                }
            })
            .collect()
    };
    let (np, nc, ns) = (rng.gen_range(0..=4), rng.gen_range(0..=4), rng.gen_range(0..=4));
    json!({"pre": mk(rng, "p", np, false), "chk": mk(rng, "c", nc, true), "st": mk(rng, "s", ns, false)})
}
