//! Concurrency drivers (C14, C15, C16): scenarios of 2-3 real threads run under the deterministic
//! scheduler; every execution is logged (calls in completion order, final readings) and judged by TLC.
use crate::sched::{self, Dfs, Pending, Sched, Strategy, Verdict};
use crate::util::*;
use sentinel_core::base::{ConcurrencyStat, MetricEvent, ReadStat, ResourceType, TrafficType};
use sentinel_core::verif::{clock, sync};
use sentinel_core::{circuitbreaker as cb, flow, hotspot, isolation, stat, system, EntryBuilder};
use serde_json::{json, Value};
use std::collections::HashMap;
use std::sync::atomic::{AtomicU64, Ordering};
use std::sync::{Arc, Mutex};

pub struct Recorder {
    seq: AtomicU64,
    evs: Mutex<Vec<(u64, Value)>>,
}
impl Recorder {
    pub fn new() -> Arc<Recorder> {
        Arc::new(Recorder { seq: AtomicU64::new(0), evs: Mutex::new(Vec::new()) })
    }
    pub fn tick(&self) -> u64 {
        self.seq.fetch_add(1, Ordering::SeqCst)
    }
    pub fn put(&self, v: Value) {
        let s = self.tick();
        self.evs.lock().unwrap().push((s, v));
    }
    pub fn take(&self) -> Vec<Value> {
        let mut v = std::mem::take(&mut *self.evs.lock().unwrap());
        v.sort_by_key(|x| x.0);
        v.into_iter().map(|x| x.1).collect()
    }
}

const KINDS: [MetricEvent; 5] = [MetricEvent::Pass, MetricEvent::Block, MetricEvent::Complete, MetricEvent::Error, MetricEvent::Rt];

fn rel_ms(t0: u64) -> i64 {
    (clock::now_ns().unwrap_or(0) / 1_000_000) as i64 - t0 as i64
}

pub struct Explore {
    pub bound: u32,
    pub max_runs: u64,
    pub random_runs: u64,
    pub seed: u64,
    pub plan: Option<Vec<usize>>,
}

pub struct Outcome {
    pub executions: u64,
    pub distinct: u64,
    pub verdicts: Vec<Value>, // deadlocks / stuck, with the decisions that lead there
    pub diverged: u64,
    pub exhausted: bool,
}

/// Explore the schedules of one scenario.  `make(exec_no)` prepares the scenario state and returns the
/// thread bodies plus a closure that produces the trace of the execution once all threads are done.
pub fn explore(
    s: &Arc<Sched>,
    ex: &Explore,
    out: &mut Out,
    label: &str,
    mut make: impl FnMut(u64) -> (Vec<Box<dyn FnOnce() + Send>>, Box<dyn FnOnce(&Verdict) -> Vec<Value>>),
) -> Outcome {
    let mut seen: std::collections::HashSet<u64> = std::collections::HashSet::new();
    let mut o = Outcome { executions: 0, distinct: 0, verdicts: Vec::new(), diverged: 0, exhausted: false };
    let mut run_one = |plan: Vec<usize>, strat: &Strategy, o: &mut Outcome, out: &mut Out| -> Option<Vec<sched::Node>> {
        let (bodies, finish) = make(o.executions);
        let (verdict, nodes, _evs, div) = s.run(bodies, plan, strat, false);
        o.executions += 1;
        o.diverged += div as u64;
        let decisions: Vec<usize> = nodes.iter().map(|n| n.chosen).collect();
        match &verdict {
            Verdict::Completed => {
                let mut trace = finish(&verdict);
                // identical traces (schedules that differ in silent steps only) are validated once
                let mut h = std::collections::hash_map::DefaultHasher::new();
                use std::hash::{Hash, Hasher};
                for e in &trace {
                    e.to_string().hash(&mut h);
                }
                if seen.insert(h.finish()) {
                    o.distinct += 1;
                    if let Some(first) = trace.first_mut() {
                        first["sched"] = json!(decisions);
                        first["label"] = json!(label);
                    }
                    out.put_all(&trace);
                }
                Some(nodes)
            }
            Verdict::Deadlock(w) => {
                let mut trace = finish(&verdict);
                if let Some(first) = trace.first_mut() {
                    first["sched"] = json!(decisions);
                    first["label"] = json!(label);
                }
                trace.push(json!({"e": "deadlock", "waiting": w}));
                out.put_all(&trace);
                o.verdicts.push(json!({"kind": "deadlock", "label": label, "waiting": w, "sched": decisions}));
                None
            }
            Verdict::Stuck(m) => {
                o.verdicts.push(json!({"kind": "stuck", "label": label, "msg": m, "sched": decisions}));
                None
            }
        }
    };
    if let Some(p) = &ex.plan {
        run_one(p.clone(), &Strategy::Dfs, &mut o, out);
        return o;
    }
    // depth-first enumeration with a preemption bound
    let mut dfs = Dfs::new(ex.bound);
    let mut plan: Vec<usize> = Vec::new();
    loop {
        match run_one(plan.clone(), &Strategy::Dfs, &mut o, out) {
            None => return o, // a deadlock / stuck thread ends the exploration (the process must exit)
            Some(nodes) => match dfs.next_plan(&nodes) {
                Some(p) => plan = p,
                None => {
                    o.exhausted = true;
                    break;
                }
            },
        }
        if o.executions >= ex.max_runs {
            break;
        }
    }
    // random priorities beyond the bound
    for k in 0..ex.random_runs {
        let strat = Strategy::Random { seed: ex.seed.wrapping_mul(7919).wrapping_add(k), depth: 3 };
        if run_one(Vec::new(), &strat, &mut o, out).is_none() {
            return o;
        }
    }
    o
}

// ------------------------------------------------------------------------------------------ C14
/// threads x pairs of build/exit on one resource; `inbound[i]`; `hold[i]` = the thread leaves its last
/// entry un-exited; `clock` = 0 (fixed), else a pseudo-thread advances the clock by that many ms once
#[derive(Clone, Debug)]
pub struct C14Scn {
    pub name: String,
    pub threads: usize,
    pub pairs: usize,
    pub inbound: Vec<bool>,
    pub hold: Vec<bool>,
    pub existing: bool,
    pub clock_ms: u64,
    pub at_ms: u64, // position of the start instant inside its 500 ms bucket
}

pub fn c14_scenarios(thorough: bool) -> Vec<C14Scn> {
    let mut v = Vec::new();
    let mut add = |name: &str, threads: usize, pairs: usize, inbound: Vec<bool>, hold: Vec<bool>, existing: bool, clock_ms: u64, at_ms: u64| {
        v.push(C14Scn { name: name.into(), threads, pairs, inbound, hold, existing, clock_ms, at_ms });
    };
    add("fresh-2x1", 2, 1, vec![false, false], vec![false, false], false, 0, 100);
    add("fresh-2x1-hold", 2, 1, vec![false, true], vec![true, false], false, 0, 100);
    add("existing-2x1-in", 2, 1, vec![true, true], vec![false, false], true, 0, 100);
    add("existing-2x2", 2, 2, vec![false, true], vec![false, false], true, 0, 100);
    add("fresh-2x1-clock-in-bucket", 2, 1, vec![false, false], vec![false, false], false, 3, 100);
    add("existing-2x1-clock-rolls", 2, 1, vec![false, false], vec![false, false], true, 3, 498);
    if thorough {
        add("fresh-3x1", 3, 1, vec![false, true, false], vec![false, false, true], false, 0, 100);
        add("fresh-2x2", 2, 2, vec![true, false], vec![false, true], false, 0, 100);
        add("existing-3x1-clock-rolls", 3, 1, vec![false, false, false], vec![false, false, false], true, 2, 499);
    }
    v
}

static EPOCH_MS: AtomicU64 = AtomicU64::new(1_700_100_000_000);

pub fn c14_filter() -> Box<dyn Fn(&Pending) -> bool + Send + Sync> {
    // scheduling points: the node map, the statistics (buckets, counters, the concurrency counter) and
    // explicit yield points; the per-entry context locks and the rule maps are passed through
    Box::new(|p: &Pending| p.site.is_empty() || p.site.starts_with("core/stat/"))
}

pub fn c14_make(scn: &C14Scn, exec_no: u64, rec: &Arc<Recorder>) -> (Vec<Box<dyn FnOnce() + Send>>, Box<dyn FnOnce(&Verdict) -> Vec<Value>>) {
    // a fresh epoch far from the previous execution, at the requested position inside a bucket
    let t0 = EPOCH_MS.fetch_add(60_000, Ordering::SeqCst) + 60_000;
    let t0 = t0 - t0 % 10_000;
    clock::set_ns((t0 + scn.at_ms) * 1_000_000);
    let res = format!("c14-{}-{}-{}", scn.name, std::process::id(), exec_no);
    if scn.existing {
        stat::get_or_create_resource_node(&res, &ResourceType::Common);
    }
    let inbound_before = stat::inbound_node().current_concurrency();
    let held: Arc<Mutex<Vec<sentinel_core::base::EntryStrongPtr>>> = Arc::new(Mutex::new(Vec::new()));
    let mut bodies: Vec<Box<dyn FnOnce() + Send>> = Vec::new();
    let _ = rec.take();
    for th in 0..scn.threads {
        let (res, rec, held) = (res.clone(), rec.clone(), held.clone());
        let (pairs, inbound, hold) = (scn.pairs, scn.inbound[th], scn.hold[th]);
        bodies.push(Box::new(move || {
            for k in 0..pairs {
                let id = th * 10 + k;
                let mut b = EntryBuilder::new(res.clone()).with_batch_count(1);
                if inbound {
                    b = b.with_traffic_type(TrafficType::Inbound);
                }
                let t_build = rel_ms(t0);
                let r = guarded(|| b.build());
                match r {
                    Ok(Ok(e)) => {
                        let node = e.context().read().unwrap().stat_node().map(|n| Arc::as_ptr(&n) as *const () as usize).unwrap_or(0);
                        rec.put(json!({"e": "build", "th": th, "id": id, "r": "pass", "node": node, "in": inbound, "t": t_build, "t2": rel_ms(t0)}));
                        if hold && k + 1 == pairs {
                            held.lock().unwrap().push(e);
                        } else {
                            let t_exit = rel_ms(t0);
                            let r = guarded(|| e.exit());
                            rec.put(json!({"e": "exit", "th": th, "id": id, "r": if r.is_ok() { "ok" } else { "panic" }, "t": t_exit, "t2": rel_ms(t0)}));
                        }
                    }
                    Ok(Err(_)) => rec.put(json!({"e": "build", "th": th, "id": id, "r": "block", "node": 0, "in": inbound, "t": t_build, "t2": rel_ms(t0)})),
                    Err(p) => rec.put(json!({"e": "build", "th": th, "id": id, "r": "panic", "panic": p, "node": 0, "in": inbound, "t": t_build, "t2": rel_ms(t0)})),
                }
            }
        }));
    }
    if scn.clock_ms > 0 {
        let (rec, dt) = (rec.clone(), scn.clock_ms);
        bodies.push(Box::new(move || {
            sync::yield_point(1);
            clock::advance_ms(dt);
            rec.put(json!({"e": "clock", "dt": dt, "t": rel_ms(t0)}));
        }));
    }
    let scn = scn.clone();
    let rec = rec.clone();
    let finish = Box::new(move |_v: &Verdict| -> Vec<Value> {
        let mut evs = vec![json!({"e": "begin", "scn": scn.name, "threads": scn.threads, "existing": scn.existing,
                                  "t": scn.at_ms, "bucket": 500})];
        let calls = rec.take();
        // node identities as small numbers
        let mut ids: HashMap<u64, u64> = HashMap::new();
        for mut c in calls {
            if let Some(n) = c.get("node").and_then(|x| x.as_u64()) {
                if n != 0 {
                    let k = ids.len() as u64 + 1;
                    let v = *ids.entry(n).or_insert(k);
                    c["node"] = json!(v);
                }
            }
            evs.push(c);
        }
        let node = stat::get_resource_node(&res);
        let mut end = json!({"e": "end", "t": rel_ms(t0)});
        match node {
            Some(n) => {
                let sums: Vec<u64> = KINDS.iter().map(|k| n.sum(*k)).collect();
                end["sum"] = json!(sums);
                end["conc"] = json!(n.current_concurrency());
                let shared = ids.get(&(Arc::as_ptr(&n) as *const () as usize as u64)).cloned().unwrap_or(0);
                end["shared"] = json!(shared);
            }
            None => {
                end["sum"] = json!([0, 0, 0, 0, 0]);
                end["conc"] = json!(0);
                end["shared"] = json!(0);
            }
        }
        end["inb"] = json!(stat::inbound_node().current_concurrency() as i64 - inbound_before as i64);
        evs.push(end);
        // release what was held, so the global inbound node is clean for the next execution
        for e in std::mem::take(&mut *held.lock().unwrap()) {
            let _ = guarded(|| e.exit());
        }
        evs
    });
    (bodies, finish)
}

pub fn warm_up() {
    // touch every lazy static once outside the scheduler (a thread parked inside a `Once` initialiser
    // would block the others invisibly)
    clock::set_ns(1_700_000_000_000 * 1_000_000);
    let _ = flow::get_rules();
    let _ = hotspot::get_rules();
    let _ = isolation::get_rules();
    let _ = cb::get_rules();
    let _ = system::get_rules();
    let _ = stat::inbound_node();
    for inbound in [false, true] {
        let mut b = EntryBuilder::new("warm-up".into());
        if inbound {
            b = b.with_traffic_type(TrafficType::Inbound);
        }
        if let Ok(e) = b.build() {
            e.exit();
        }
    }
}

pub fn run_c14(a: &Args) {
    let thorough = a.get_or("tier", "quick") == "thorough";
    let mut out = Out::create(a.get("out"));
    warm_up();
    let s = Sched::new(c14_filter());
    sched::install(&s);
    let rec = Recorder::new();
    let mut summary = Vec::new();
    let only = a.get_or("scenario", "");
    let plan: Option<Vec<usize>> = a.map.get("plan").map(|p| p.split(',').filter(|x| !x.is_empty()).map(|x| x.parse().unwrap()).collect());
    for scn in c14_scenarios(thorough) {
        if !only.is_empty() && only != scn.name {
            continue;
        }
        let ex = Explore {
            bound: a.num("bound", if thorough { 3 } else { 2 }) as u32,
            max_runs: a.num("max", if thorough { 200_000 } else { 12_000 }),
            random_runs: a.num("random", if thorough { 5000 } else { 300 }),
            seed: a.num("seed", 1),
            plan: plan.clone(),
        };
        let o = explore(&s, &ex, &mut out, &scn.name, |n| c14_make(&scn, n, &rec));
        summary.push(json!({"scenario": scn.name, "executions": o.executions, "distinct_traces": o.distinct,
                            "dfs_exhausted": o.exhausted, "diverged": o.diverged, "verdicts": o.verdicts}));
        if !o.verdicts.is_empty() {
            break;
        }
    }
    sync::uninstall();
    println!("{}", json!({"summary": summary}));
    out.finish();
    // threads of an abandoned execution may still be parked
    std::process::exit(0);
}

// ------------------------------------------------------------------------------------------ C16
thread_local! {
    static CUR_TH: std::cell::Cell<usize> = std::cell::Cell::new(9);
}

struct ConcListener {
    rec: Mutex<Option<(Arc<Recorder>, u64, String)>>, // recorder, epoch, resource of the running execution
}
impl ConcListener {
    fn put(&self, prev: cb::State, to: &str, rule: &Arc<cb::Rule>) {
        if let Some((rec, t0, res)) = self.rec.lock().unwrap().as_ref() {
            if &rule.resource != res {
                return;
            }
            let name = |s: cb::State| match s {
                cb::State::Closed => "closed",
                cb::State::HalfOpen => "halfopen",
                cb::State::Open => "open",
            };
            rec.put(json!({"e": "tr", "th": CUR_TH.with(|c| c.get()), "prev": name(prev), "to": to, "t": rel_ms(*t0)}));
        }
    }
}
impl cb::StateChangeListener for ConcListener {
    fn on_transform_to_closed(&self, prev: cb::State, rule: Arc<cb::Rule>) {
        self.put(prev, "closed", &rule)
    }
    fn on_transform_to_open(&self, prev: cb::State, rule: Arc<cb::Rule>, _s: Option<Arc<sentinel_core::base::Snapshot>>) {
        self.put(prev, "open", &rule)
    }
    fn on_transform_to_half_open(&self, prev: cb::State, rule: Arc<cb::Rule>) {
        self.put(prev, "halfopen", &rule)
    }
    fn on_circuit_breaker_drop(&self, _prev: cb::State, _rule: Arc<cb::Rule>) {}
}

#[derive(Clone, Debug)]
pub enum COp {
    Build(u64),
    Exit(u64, bool),
    Advance(u64),
    /// load an isolation rule of this threshold on the resource (requests beyond it are rejected elsewhere)
    LoadIso(u32),
}

#[derive(Clone, Debug)]
pub struct C16Scn {
    pub name: String,
    pub thr: u64,
    pub minreq: u64,
    pub setup: Vec<COp>,
    pub threads: Vec<Vec<COp>>,
    pub onebucket: bool,
}

pub fn c16_scenarios(thorough: bool) -> Vec<C16Scn> {
    use COp::*;
    let mut v = vec![
        // several completions that each would open the breaker
        C16Scn { name: "open-race-2".into(), thr: 1, minreq: 0, setup: vec![],
                 threads: vec![vec![Build(1), Exit(1, true)], vec![Build(2), Exit(2, true)]], onebucket: true },
        C16Scn { name: "open-race-thr2".into(), thr: 2, minreq: 2, setup: vec![Build(1), Build(2)],
                 threads: vec![vec![Exit(1, true)], vec![Exit(2, true)]], onebucket: true },
        // several requests arriving after the retry time-out
        C16Scn { name: "probe-race-2".into(), thr: 1, minreq: 0, setup: vec![Build(1), Exit(1, true), Advance(1001)],
                 threads: vec![vec![Build(2), Exit(2, false)], vec![Build(3), Exit(3, false)]], onebucket: false },
        // a failing probe re-opens the breaker while another request is on its way in
        C16Scn { name: "reopen-race".into(), thr: 1, minreq: 0, setup: vec![Build(1), Exit(1, true), Advance(1001)],
                 threads: vec![vec![Build(2), Exit(2, true)], vec![Build(3), Exit(3, false)]], onebucket: false },
        // a request arriving while a completion trips the breaker
        C16Scn { name: "trip-vs-request".into(), thr: 1, minreq: 0, setup: vec![Build(1)],
                 threads: vec![vec![Exit(1, true)], vec![Build(2), Exit(2, false)]], onebucket: true },
        // a probe rejected by another rule (rolled back) racing with a stale completion
        C16Scn { name: "blocked-probe-vs-stale".into(), thr: 1, minreq: 0,
                 setup: vec![Build(1), Build(2), Exit(2, true), Advance(1001), LoadIso(1)],
                 threads: vec![vec![Build(3), Exit(3, false)], vec![Exit(1, false)]], onebucket: false },
        // a failing probe racing with a successful stale completion, and a request right behind it
        C16Scn { name: "failed-probe-vs-stale-then-request".into(), thr: 1, minreq: 0,
                 setup: vec![Build(1), Build(2), Exit(2, true), Advance(1001)],
                 threads: vec![vec![Build(3), Exit(3, true)], vec![Exit(1, false), Build(4), Exit(4, false)]], onebucket: false },
        // a probe completion racing with a stale completion and a new request
        C16Scn { name: "probe-vs-stale".into(), thr: 1, minreq: 0,
                 setup: vec![Build(1), Build(2), Exit(2, true), Advance(1001)],
                 threads: vec![vec![Build(3), Exit(3, false)], vec![Exit(1, true)]], onebucket: false },
    ];
    if thorough {
        v.push(C16Scn { name: "open-race-3".into(), thr: 1, minreq: 0, setup: vec![],
                        threads: vec![vec![Build(1), Exit(1, true)], vec![Build(2), Exit(2, true)], vec![Build(3), Exit(3, false)]], onebucket: true });
        v.push(C16Scn { name: "probe-race-3".into(), thr: 1, minreq: 0, setup: vec![Build(1), Exit(1, true), Advance(1001)],
                        threads: vec![vec![Build(2), Exit(2, false)], vec![Build(3), Exit(3, true)], vec![Build(4), Exit(4, false)]], onebucket: false });
        v.push(C16Scn { name: "probe-stale-new".into(), thr: 1, minreq: 0,
                        setup: vec![Build(1), Build(2), Exit(2, true), Advance(1001)],
                        threads: vec![vec![Build(3), Exit(3, false)], vec![Exit(1, false)], vec![Build(4), Exit(4, false)]], onebucket: false });
    }
    v
}

pub fn c16_filter() -> Box<dyn Fn(&Pending) -> bool + Send + Sync> {
    // scheduling points: everything the breaker synchronises on (its state mutex, the listener list, the
    // retry stamp, the window counters); other locks are tracked but passed through
    Box::new(|p: &Pending| p.site.starts_with("core/circuitbreaker/"))
}

type Entries = Arc<Mutex<HashMap<u64, sentinel_core::base::EntryStrongPtr>>>;

fn c16_do(op: &COp, th: usize, res: &str, rec: &Arc<Recorder>, entries: &Entries, t0: u64) {
    CUR_TH.with(|c| c.set(th));
    match op {
        COp::Advance(ms) => clock::advance_ms(*ms),
        COp::LoadIso(thr) => {
            let _ = isolation::load_rules_of_resource(
                &res.to_string(),
                vec![Arc::new(isolation::Rule { id: "i".into(), resource: res.to_string(), threshold: *thr, ..Default::default() })],
            );
        }
        COp::Build(id) => {
            rec.put(json!({"e": "cs", "th": th, "op": "build", "id": id, "err": false, "t": rel_ms(t0)}));
            let r = guarded(|| EntryBuilder::new(res.to_string()).build());
            let out = match r {
                Ok(Ok(e)) => {
                    entries.lock().unwrap().insert(*id, e);
                    "pass"
                }
                Ok(Err(_)) => "block",
                Err(_) => "panic",
            };
            rec.put(json!({"e": "ce", "th": th, "op": "build", "id": id, "r": out, "err": false, "t": rel_ms(t0)}));
        }
        COp::Exit(id, err) => {
            let e = entries.lock().unwrap().remove(id);
            if let Some(e) = e {
                rec.put(json!({"e": "cs", "th": th, "op": "exit", "id": id, "err": err, "t": rel_ms(t0)}));
                if *err {
                    sentinel_core::api::trace_error(&e, sentinel_core::Error::msg("verif error"));
                }
                let r = guarded(|| e.exit());
                rec.put(json!({"e": "ce", "th": th, "op": "exit", "id": id, "r": if r.is_ok() { "ok" } else { "panic" }, "err": err, "t": rel_ms(t0)}));
            }
        }
    }
}

pub fn run_c16(a: &Args) {
    let thorough = a.get_or("tier", "quick") == "thorough";
    let mut out = Out::create(a.get("out"));
    warm_up();
    let lis = Arc::new(ConcListener { rec: Mutex::new(None) });
    cb::register_state_change_listeners(vec![lis.clone()]);
    let s = Sched::new(c16_filter());
    sched::install(&s);
    let rec = Recorder::new();
    let mut summary = Vec::new();
    let only = a.get_or("scenario", "");
    let plan: Option<Vec<usize>> = a.map.get("plan").map(|p| p.split(',').filter(|x| !x.is_empty()).map(|x| x.parse().unwrap()).collect());
    for scn in c16_scenarios(thorough) {
        if !only.is_empty() && only != scn.name {
            continue;
        }
        let ex = Explore {
            bound: a.num("bound", if thorough { 3 } else { 2 }) as u32,
            max_runs: a.num("max", if thorough { 300_000 } else { 15_000 }),
            random_runs: a.num("random", if thorough { 5000 } else { 300 }),
            seed: a.num("seed", 1),
            plan: plan.clone(),
        };
        let o = explore(&s, &ex, &mut out, &scn.name, |n| {
            let t0 = EPOCH_MS.fetch_add(60_000, Ordering::SeqCst) + 60_000;
            let t0 = t0 - t0 % 10_000;
            clock::set_ns((t0 + 100) * 1_000_000);
            let res = format!("c16-{}-{}-{}", scn.name, std::process::id(), n);
            let _ = rec.take();
            *lis.rec.lock().unwrap() = Some((rec.clone(), t0, res.clone()));
            let rule = Arc::new(cb::Rule {
                id: "c".into(),
                resource: res.clone(),
                strategy: cb::BreakerStrategy::ErrorCount,
                retry_timeout_ms: 1000,
                min_request_amount: scn.minreq,
                stat_interval_ms: 1000,
                stat_sliding_window_bucket_count: 1,
                max_allowed_rt_ms: 0,
                threshold: scn.thr as f64,
            });
            let _ = cb::load_rules_of_resource(&res, vec![rule]);
            let entries: Entries = Arc::new(Mutex::new(HashMap::new()));
            // the sequential prelude (logged like everything else, thread 9)
            for op in &scn.setup {
                c16_do(op, 9, &res, &rec, &entries, t0);
            }
            let mut bodies: Vec<Box<dyn FnOnce() + Send>> = Vec::new();
            for (th, ops) in scn.threads.iter().enumerate() {
                let (ops, res, rec, entries) = (ops.clone(), res.clone(), rec.clone(), entries.clone());
                bodies.push(Box::new(move || {
                    for op in &ops {
                        c16_do(op, th, &res, &rec, &entries, t0);
                    }
                }));
            }
            let (scn2, rec2, res2, lis2) = (scn.clone(), rec.clone(), res.clone(), lis.clone());
            let finish = Box::new(move |_v: &Verdict| -> Vec<Value> {
                let ext = scn2.setup.iter().any(|o| matches!(o, COp::LoadIso(_)));
                let mut evs = vec![json!({"e": "begin", "scn": scn2.name, "thr": scn2.thr, "minreq": scn2.minreq, "retry": 1000, "ext": ext})];
                let calls = rec2.take();
                let ntr = calls.iter().filter(|c| c["e"] == "tr").count();
                evs.extend(calls);
                let brs = cb::get_breakers_of_resource(&res2);
                let st = brs.first().map(|b| match b.current_state() {
                    cb::State::Closed => "closed",
                    cb::State::HalfOpen => "halfopen",
                    cb::State::Open => "open",
                }).unwrap_or("none");
                evs.push(json!({"e": "end", "st": st, "ntr": ntr, "onebucket": scn2.onebucket}));
                *lis2.rec.lock().unwrap() = None;
                for (_, e) in entries.lock().unwrap().drain() {
                    let _ = guarded(|| e.exit());
                }
                cb::clear_rules_of_resource(&res2);
                isolation::clear_rules_of_resource(&res2);
                evs
            });
            (bodies, finish)
        });
        summary.push(json!({"scenario": scn.name, "executions": o.executions, "distinct_traces": o.distinct,
                            "dfs_exhausted": o.exhausted, "diverged": o.diverged, "verdicts": o.verdicts}));
        if !o.verdicts.is_empty() {
            break;
        }
    }
    sync::uninstall();
    println!("{}", json!({"summary": summary}));
    out.finish();
    std::process::exit(0);
}

// ------------------------------------------------------------------------------------------ C15
/// one manager / entry operation of a scenario thread
#[derive(Clone, Debug)]
pub struct MOp {
    pub fam: String,
    pub op: String,
}

fn c15_rule_flow(res: &str, id: &str, thr: f64) -> Arc<flow::Rule> {
    Arc::new(flow::Rule { id: id.into(), resource: res.into(), threshold: thr, ..Default::default() })
}
fn c15_rule_iso(res: &str, id: &str, thr: u32) -> Arc<isolation::Rule> {
    Arc::new(isolation::Rule { id: id.into(), resource: res.into(), threshold: thr, ..Default::default() })
}
fn c15_rule_hot(res: &str, id: &str, thr: u64) -> Arc<hotspot::Rule> {
    Arc::new(hotspot::Rule { id: id.into(), resource: res.into(), metric_type: hotspot::MetricType::QPS, threshold: thr,
                             duration_in_sec: 1, param_index: 0, ..Default::default() })
}
fn c15_rule_cb(res: &str, id: &str, thr: f64) -> Arc<cb::Rule> {
    Arc::new(cb::Rule { id: id.into(), resource: res.into(), strategy: cb::BreakerStrategy::ErrorCount, retry_timeout_ms: 1000,
                        min_request_amount: 0, stat_interval_ms: 1000, stat_sliding_window_bucket_count: 1,
                        max_allowed_rt_ms: 0, threshold: thr })
}
fn c15_rule_sys(id: &str, thr: f64) -> Arc<system::Rule> {
    Arc::new(system::Rule { id: id.into(), metric_type: system::MetricType::Concurrency, threshold: thr,
                            strategy: system::AdaptiveStrategy::NoAdaptive })
}

/// R = the resource under test, R2 another one
fn c15_exec(op: &MOp, r: &str, r2: &str) {
    let (rs, r2s) = (r.to_string(), r2.to_string());
    macro_rules! fam_ops {
        ($m:ident, $mk:expr) => {
            match op.op.as_str() {
                "loadA" => { let _ = $m::load_rules(vec![$mk(r, "a", 1)]); }
                "loadB" => { let _ = $m::load_rules(vec![$mk(r, "b", 2), $mk(r2, "c", 3)]); }
                "loadres" => { let _ = $m::load_rules_of_resource(&rs, vec![$mk(r, "b", 2), $mk(r, "e", 5)]); }
                "loadres0" => { let _ = $m::load_rules_of_resource(&rs, vec![]); }
                "append" => { let _ = $m::append_rule($mk(r, "d", 4)); }
                "clear" => { $m::clear_rules(); }
                "clearres" => { $m::clear_rules_of_resource(&rs); }
                "get" => { let _ = $m::get_rules(); }
                "getres" => { let _ = $m::get_rules_of_resource(&rs); }
                o => panic!("unknown op {}", o),
            }
        };
    }
    match (op.fam.as_str(), op.op.as_str()) {
        ("clock", ms) => clock::advance_ms(ms.parse().unwrap()),
        (_, "entry") | (_, "entryerr") => {
            if let Ok(e) = EntryBuilder::new(rs.clone()).with_args(Some(vec!["v".into()])).build() {
                if op.op == "entryerr" {
                    sentinel_core::api::trace_error(&e, sentinel_core::Error::msg("verif error"));
                }
                e.exit();
            }
        }
        ("flow", "loadzero") => { let _ = flow::load_rules(vec![c15_rule_flow(r, "z", 0.0)]); }
        ("flow", _) => fam_ops!(flow, |a: &str, b: &str, k: u32| c15_rule_flow(a, b, k as f64)),
        ("iso", _) => fam_ops!(isolation, |a: &str, b: &str, k: u32| c15_rule_iso(a, b, k)),
        ("hot", _) => fam_ops!(hotspot, |a: &str, b: &str, k: u32| c15_rule_hot(a, b, k as u64)),
        ("cb", _) => fam_ops!(cb, |a: &str, b: &str, k: u32| c15_rule_cb(a, b, k as f64)),
        ("sys", o) => match o {
            "loadA" => system::load_rules(vec![c15_rule_sys("a", 100.0)]),
            "loadB" => system::load_rules(vec![c15_rule_sys("b", 200.0), c15_rule_sys("c", 300.0)]),
            "append" => { let _ = system::append_rule(c15_rule_sys("d", 400.0)); }
            "clear" => system::clear_rules(),
            "get" => { let _ = system::get_rules(); }
            o => panic!("unknown sys op {}", o),
        },
        (f, o) => panic!("unknown {} {}", f, o),
    }
}

fn c15_reset(r: &str) {
    let _ = guarded(|| flow::clear_rules());
    let _ = guarded(|| isolation::clear_rules());
    let _ = guarded(|| hotspot::clear_rules());
    let _ = guarded(|| cb::clear_rules());
    let _ = guarded(|| system::clear_rules());
    // something is in force on the resource under test in every family
    let _ = guarded(|| flow::load_rules(vec![c15_rule_flow(r, "a", 1.0)]));
    let _ = guarded(|| isolation::load_rules(vec![c15_rule_iso(r, "a", 1)]));
    let _ = guarded(|| hotspot::load_rules(vec![c15_rule_hot(r, "a", 1)]));
    let _ = guarded(|| cb::load_rules(vec![c15_rule_cb(r, "a", 1.0)]));
    let _ = guarded(|| system::load_rules(vec![c15_rule_sys("a", 100.0)]));
}

/// every manager still answers queries and accepts updates, an entry can still be built
fn c15_health() -> String {
    let probes: Vec<(&str, Box<dyn FnOnce()>)> = vec![
        ("flow", Box::new(|| { let _ = flow::get_rules(); let _ = flow::load_rules_of_resource(&"health".to_string(), vec![c15_rule_flow("health", "h", 9.0)]); flow::clear_rules_of_resource(&"health".to_string()); })),
        ("iso", Box::new(|| { let _ = isolation::get_rules(); let _ = isolation::load_rules_of_resource(&"health".to_string(), vec![c15_rule_iso("health", "h", 9)]); isolation::clear_rules_of_resource(&"health".to_string()); })),
        ("hot", Box::new(|| { let _ = hotspot::get_rules(); let _ = hotspot::load_rules_of_resource(&"health".to_string(), vec![c15_rule_hot("health", "h", 9)]); hotspot::clear_rules_of_resource(&"health".to_string()); })),
        ("cb", Box::new(|| { let _ = cb::get_rules(); let _ = cb::load_rules_of_resource(&"health".to_string(), vec![c15_rule_cb("health", "h", 9.0)]); cb::clear_rules_of_resource(&"health".to_string()); })),
        ("sys", Box::new(|| { let _ = system::get_rules(); let _ = system::append_rule(c15_rule_sys("h", 900.0)); })),
        ("entry", Box::new(|| { if let Ok(e) = EntryBuilder::new("health".into()).build() { e.exit(); } })),
    ];
    for (name, p) in probes {
        if let Err(m) = guarded(p) {
            return format!("bad:{}:{}", name, m.chars().take(80).collect::<String>());
        }
    }
    "ok".into()
}

pub struct C15Scn {
    pub name: String,
    pub threads: Vec<Vec<MOp>>,
    pub callback: String, // "", "listener", "generator"
    pub setup: Vec<MOp>,  // sequential prelude (after the base rules are loaded)
}

fn mop(fam: &str, op: &str) -> MOp {
    MOp { fam: fam.into(), op: op.into() }
}

pub fn c15_scenarios(thorough: bool) -> Vec<C15Scn> {
    let mut v = Vec::new();
    let ops = ["loadA", "loadB", "loadres", "loadres0", "append", "clear", "clearres", "get"];
    let sys_ops = ["loadA", "loadB", "append", "clear", "get"];
    for fam in ["flow", "iso", "hot", "cb", "sys"] {
        let fo: &[&str] = if fam == "sys" { &sys_ops } else { &ops };
        for (i, a) in fo.iter().enumerate() {
            for b in fo.iter().skip(i) {
                if *a == "get" && *b == "get" {
                    continue;
                }
                // every pair of manager operations of the family, with an entry on the affected resource
                let entry = if fam == "cb" { "entryerr" } else { "entry" };
                v.push(C15Scn { name: format!("{}:{}+{}+entry", fam, a, b),
                                threads: vec![vec![mop(fam, a)], vec![mop(fam, b)], vec![mop(fam, entry)]], callback: "".into(), setup: vec![] });
            }
        }
    }
    // across families
    for (fa, fb) in [("flow", "cb"), ("hot", "iso"), ("cb", "hot"), ("sys", "flow")] {
        v.push(C15Scn { name: format!("{}:loadB+{}:loadB+entry", fa, fb),
                        threads: vec![vec![mop(fa, "loadB")], vec![mop(fb, "loadB")], vec![mop("cb", "entryerr")]], callback: "".into(), setup: vec![] });
        v.push(C15Scn { name: format!("{}:append+{}:clear+entry", fa, fb),
                        threads: vec![vec![mop(fa, "append")], vec![mop(fb, "clear")], vec![mop("cb", "entryerr")]], callback: "".into(), setup: vec![] });
    }
    // two-step programs (selected triples)
    for fam in ["flow", "hot", "cb"] {
        v.push(C15Scn { name: format!("{}:append,append+clear,loadA+entry", fam),
                        threads: vec![vec![mop(fam, "append"), mop(fam, "append")], vec![mop(fam, "clear"), mop(fam, "loadA")], vec![mop(fam, if fam == "cb" { "entryerr" } else { "entry" })]],
                        callback: "".into(), setup: vec![] });
    }
    // call-backs into read-only manager functions
    v.push(C15Scn { name: "cb:listener-reads+loadB+entryerr".into(),
                    threads: vec![vec![mop("cb", "entryerr")], vec![mop("cb", "loadB")]], callback: "listener".into(), setup: vec![] });
    v.push(C15Scn { name: "cb:listener-reads+clear+entryerr".into(),
                    threads: vec![vec![mop("cb", "entryerr")], vec![mop("cb", "clear")]], callback: "listener".into(), setup: vec![] });
    // the probe of an Open breaker (its transition notifies the listeners from inside the entry's rule check)
    // against a concurrent update of the breaker rules, with a listener that reads the manager
    for b in ["loadB", "loadres", "append", "clear", "clearres"] {
        v.push(C15Scn { name: format!("cb:probe-listener-reads+{}", b),
                        threads: vec![vec![mop("cb", "entry")], vec![mop("cb", b)]], callback: "listener".into(),
                        setup: vec![mop("cb", "entryerr"), mop("clock", "1001")] });
    }
    // a probe that another rule rejects (its exit hook rolls the breaker back) against an update that
    // drops that breaker (whose drop notifies the listeners)
    for b in ["loadB", "loadres", "clear", "clearres"] {
        v.push(C15Scn { name: format!("cb:blocked-probe+{}", b),
                        threads: vec![vec![mop("cb", "entry")], vec![mop("cb", b)]], callback: "".into(),
                        setup: vec![mop("cb", "entryerr"), mop("clock", "1001"), mop("flow", "loadzero")] });
    }
    // every pair of mutating operations of a family on their own (two threads: the preemption bound then covers
    // every point of both within the run budget, e.g. the gap between two separately locked steps of one call)
    for fam in ["flow", "iso", "hot", "cb", "sys"] {
        let mo: &[&str] = if fam == "sys" { &["loadA", "loadB", "append", "clear"] } else { &["loadA", "loadB", "loadres", "loadres0", "append", "clear", "clearres"] };
        for (i, a) in mo.iter().enumerate() {
            for b in mo.iter().skip(i) {
                v.push(C15Scn { name: format!("{}:{}+{}", fam, a, b), threads: vec![vec![mop(fam, a)], vec![mop(fam, b)]], callback: "".into(), setup: vec![] });
            }
        }
    }
    if thorough {
        for fam in ["flow", "iso", "hot", "cb"] {
            for a in ["loadB", "loadres", "append", "clear"] {
                v.push(C15Scn { name: format!("{}:{}+entry+entry", fam, a),
                                threads: vec![vec![mop(fam, a)], vec![mop(fam, "entry")], vec![mop(fam, if fam == "cb" { "entryerr" } else { "entry" })]], callback: "".into(), setup: vec![] });
            }
        }
    }
    v
}

/// a listener that reads the manager it is called from (what user code observing transitions may do)
struct ReadingListener {
    res: Mutex<String>,
    on: std::sync::atomic::AtomicBool,
}
impl ReadingListener {
    fn read(&self) {
        if self.on.load(Ordering::SeqCst) {
            let r = self.res.lock().unwrap().clone();
            let _ = cb::get_rules_of_resource(&r);
            let _ = cb::get_breakers_of_resource(&r);
        }
    }
}
impl cb::StateChangeListener for ReadingListener {
    fn on_transform_to_closed(&self, _p: cb::State, _r: Arc<cb::Rule>) {
        self.read()
    }
    fn on_transform_to_open(&self, _p: cb::State, _r: Arc<cb::Rule>, _s: Option<Arc<sentinel_core::base::Snapshot>>) {
        self.read()
    }
    fn on_transform_to_half_open(&self, _p: cb::State, _r: Arc<cb::Rule>) {
        self.read()
    }
    fn on_circuit_breaker_drop(&self, _p: cb::State, _r: Arc<cb::Rule>) {
        self.read()
    }
}

pub fn c15_filter() -> Box<dyn Fn(&Pending) -> bool + Send + Sync> {
    // scheduling points: every lock acquisition of the rule managers and of the breakers
    Box::new(|p: &Pending| {
        matches!(p.op, sync::Op::Lock | sync::Op::Read | sync::Op::Write | sync::Op::TryLock | sync::Op::TryRead | sync::Op::TryWrite)
            && (p.site.contains("rule_manager.rs") || p.site.starts_with("core/circuitbreaker/") || p.site.contains("node_storage"))
    })
}

pub fn run_c15(a: &Args) {
    let thorough = a.get_or("tier", "quick") == "thorough";
    let mut out = Out::create(a.get("out"));
    warm_up();
    let lis = Arc::new(ReadingListener { res: Mutex::new(String::new()), on: std::sync::atomic::AtomicBool::new(false) });
    cb::register_state_change_listeners(vec![lis.clone()]);
    let s = Sched::new(c15_filter());
    sched::install(&s);
    let rec = Recorder::new();
    let mut summary = Vec::new();
    let only = a.get_or("scenario", "");
    let plan: Option<Vec<usize>> = a.map.get("plan").map(|p| p.split(',').filter(|x| !x.is_empty()).map(|x| x.parse().unwrap()).collect());
    let from = a.num("from", 0) as usize;
    let to = a.num("to", u32::MAX as u64) as usize;
    // lock programs of single operations (for the model-level composition): `--programs 1`
    if a.num("programs", 0) == 1 {
        let mut progs = Vec::new();
        for fam in ["flow", "iso", "hot", "cb", "sys"] {
            for op in ["loadA", "loadB", "loadres", "loadres0", "append", "clear", "clearres", "get", "getres", "entry", "entryerr"] {
                if fam == "sys" && !["loadA", "loadB", "append", "clear", "get"].contains(&op) {
                    continue;
                }
                if (op == "entry" || op == "entryerr") && fam != "cb" {
                    continue;
                }
                let r = format!("c15p-{}-{}", fam, op);
                c15_reset(&r);
                clock::set_ns(1_700_200_000_000 * 1_000_000);
                let m = mop(fam, op);
                let (r1, r2) = (r.clone(), format!("{}-2", r));
                let body: Box<dyn FnOnce() + Send> = Box::new(move || {
                    let _ = guarded(|| c15_exec(&m, &r1, &r2));
                });
                let (v, _n, evs, _d) = s.run(vec![body], vec![], &Strategy::Dfs, true);
                progs.push(json!({"op": format!("{}:{}", fam, op), "verdict": format!("{:?}", v), "events": evs}));
                if v != Verdict::Completed {
                    break;
                }
            }
        }
        sync::uninstall();
        println!("{}", json!({"programs": progs}));
        out.finish();
        std::process::exit(0);
    }
    let mut scenarios = c15_scenarios(thorough);
    if let Some(pair) = a.map.get("pair") {
        // an ad-hoc pair of operations "fam:op,fam:op" (a candidate of the model-level composition)
        let ops: Vec<MOp> = pair.split(',').map(|x| { let mut it = x.split(':'); mop(it.next().unwrap(), it.next().unwrap()) }).collect();
        scenarios = vec![C15Scn { name: format!("pair:{}", pair), threads: ops.into_iter().map(|o| vec![o]).collect(), callback: "".into(), setup: vec![] }];
    }
    for (i, scn) in scenarios.into_iter().enumerate() {
        if (!only.is_empty() && only != scn.name && !scn.name.starts_with("pair:")) || (only.is_empty() && (i < from || i >= to)) {
            continue;
        }
        let ex = Explore {
            bound: a.num("bound", if thorough { 2 } else { 1 }) as u32,
            max_runs: a.num("max", if thorough { 3000 } else { 250 }),
            random_runs: a.num("random", if thorough { 300 } else { 30 }),
            seed: a.num("seed", 1),
            plan: plan.clone(),
        };
        let o = explore(&s, &ex, &mut out, &scn.name, |n| {
            let t0 = EPOCH_MS.fetch_add(60_000, Ordering::SeqCst) + 60_000;
            clock::set_ns((t0 - t0 % 10_000 + 100) * 1_000_000);
            let r = format!("c15-{}-{}", std::process::id(), n);
            let r2 = format!("{}-2", r);
            lis.on.store(false, Ordering::SeqCst);
            c15_reset(&r);
            *lis.res.lock().unwrap() = r.clone();
            for op in &scn.setup {
                let _ = guarded(|| c15_exec(op, &r, &r2));
            }
            lis.on.store(scn.callback == "listener", Ordering::SeqCst);
            let _ = rec.take();
            let mut bodies: Vec<Box<dyn FnOnce() + Send>> = Vec::new();
            for (th, ops) in scn.threads.iter().enumerate() {
                let (ops, r, r2, rec) = (ops.clone(), r.clone(), r2.clone(), rec.clone());
                bodies.push(Box::new(move || {
                    for op in &ops {
                        let res = guarded(|| c15_exec(op, &r, &r2));
                        rec.put(json!({"e": "call", "th": th, "op": format!("{}:{}", op.fam, op.op),
                                       "r": if res.is_ok() { "ok".to_string() } else { format!("panic:{}", res.err().unwrap().chars().take(100).collect::<String>()) }}));
                    }
                }));
            }
            let name = scn.name.clone();
            let rec2 = rec.clone();
            let lis2 = lis.clone();
            let finish = Box::new(move |v: &Verdict| -> Vec<Value> {
                let mut evs = vec![json!({"e": "begin", "scn": name})];
                evs.extend(rec2.take());
                lis2.on.store(false, Ordering::SeqCst);
                if *v == Verdict::Completed {
                    evs.push(json!({"e": "end", "health": c15_health()}));
                }
                evs
            });
            (bodies, finish)
        });
        let bad = !o.verdicts.is_empty();
        summary.push(json!({"scenario": scn.name, "executions": o.executions, "distinct_traces": o.distinct,
                            "dfs_exhausted": o.exhausted, "diverged": o.diverged, "verdicts": o.verdicts}));
        if bad {
            break; // a deadlock leaves threads parked inside the code under test: this process is done
        }
    }
    sync::uninstall();
    println!("{}", json!({"summary": summary}));
    out.finish();
    std::process::exit(0);
}
