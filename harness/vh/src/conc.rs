//! Concurrency drivers (C14, C15, C16): scenarios of 2-3 real threads run under the deterministic
//! scheduler; every execution is logged (calls in completion order, final readings) and judged by TLC.
use crate::sched::{self, Dfs, Pending, Sched, Strategy, Verdict};
use crate::util::*;
use sentinel_core::base::{ConcurrencyStat, MetricEvent, ReadStat, ResourceType, TrafficType};
use sentinel_core::verif::{clock, sync};
use sentinel_core::{circuitbreaker as cb, flow, hotspot, isolation, stat, system, EntryBuilder};
use serde_json::{json, Value};
use std::collections::HashMap;
use std::sync::atomic::{AtomicU64, Ordering};
use std::sync::{Arc, Mutex};

pub struct Recorder {
    seq: AtomicU64,
    evs: Mutex<Vec<(u64, Value)>>,
}
impl Recorder {
    pub fn new() -> Arc<Recorder> {
        Arc::new(Recorder { seq: AtomicU64::new(0), evs: Mutex::new(Vec::new()) })
    }
    pub fn tick(&self) -> u64 {
        self.seq.fetch_add(1, Ordering::SeqCst)
    }
    pub fn put(&self, v: Value) {
        let s = self.tick();
        self.evs.lock().unwrap().push((s, v));
    }
    pub fn take(&self) -> Vec<Value> {
        let mut v = std::mem::take(&mut *self.evs.lock().unwrap());
        v.sort_by_key(|x| x.0);
        v.into_iter().map(|x| x.1).collect()
    }
}

const KINDS: [MetricEvent; 5] = [MetricEvent::Pass, MetricEvent::Block, MetricEvent::Complete, MetricEvent::Error, MetricEvent::Rt];

fn rel_ms(t0: u64) -> i64 {
    (clock::now_ns().unwrap_or(0) / 1_000_000) as i64 - t0 as i64
}

pub struct Explore {
    pub bound: u32,
    pub max_runs: u64,
    pub random_runs: u64,
    pub seed: u64,
    pub plan: Option<Vec<usize>>,
}

pub struct Outcome {
    pub executions: u64,
    pub distinct: u64,
    pub verdicts: Vec<Value>, // deadlocks / stuck, with the decisions that lead there
    pub diverged: u64,
    pub exhausted: bool,
}

/// Explore the schedules of one scenario.  `make(exec_no)` prepares the scenario state and returns the
/// thread bodies plus a closure that produces the trace of the execution once all threads are done.
pub fn explore(
    s: &Arc<Sched>,
    ex: &Explore,
    out: &mut Out,
    label: &str,
    mut make: impl FnMut(u64) -> (Vec<Box<dyn FnOnce() + Send>>, Box<dyn FnOnce(&Verdict) -> Vec<Value>>),
) -> Outcome {
    let mut seen: std::collections::HashSet<u64> = std::collections::HashSet::new();
    let mut o = Outcome { executions: 0, distinct: 0, verdicts: Vec::new(), diverged: 0, exhausted: false };
    let mut run_one = |plan: Vec<usize>, strat: &Strategy, o: &mut Outcome, out: &mut Out| -> Option<Vec<sched::Node>> {
        let (bodies, finish) = make(o.executions);
        let (verdict, nodes, _evs, div) = s.run(bodies, plan, strat, false);
        o.executions += 1;
        o.diverged += div as u64;
        let decisions: Vec<usize> = nodes.iter().map(|n| n.chosen).collect();
        match &verdict {
            Verdict::Completed => {
                let mut trace = finish(&verdict);
                // identical traces (schedules that differ in silent steps only) are validated once
                let mut h = std::collections::hash_map::DefaultHasher::new();
                use std::hash::{Hash, Hasher};
                for e in &trace {
                    e.to_string().hash(&mut h);
                }
                if seen.insert(h.finish()) {
                    o.distinct += 1;
                    if let Some(first) = trace.first_mut() {
                        first["sched"] = json!(decisions);
                        first["label"] = json!(label);
                    }
                    out.put_all(&trace);
                }
                Some(nodes)
            }
            Verdict::Deadlock(w) => {
                let mut trace = finish(&verdict);
                if let Some(first) = trace.first_mut() {
                    first["sched"] = json!(decisions);
                    first["label"] = json!(label);
                }
                trace.push(json!({"e": "deadlock", "waiting": w}));
                out.put_all(&trace);
                o.verdicts.push(json!({"kind": "deadlock", "label": label, "waiting": w, "sched": decisions}));
                None
            }
            Verdict::Stuck(m) => {
                o.verdicts.push(json!({"kind": "stuck", "label": label, "msg": m, "sched": decisions}));
                None
            }
        }
    };
    if let Some(p) = &ex.plan {
        run_one(p.clone(), &Strategy::Dfs, &mut o, out);
        return o;
    }
    // depth-first enumeration with a preemption bound
    let mut dfs = Dfs::new(ex.bound);
    let mut plan: Vec<usize> = Vec::new();
    loop {
        match run_one(plan.clone(), &Strategy::Dfs, &mut o, out) {
            None => return o, // a deadlock / stuck thread ends the exploration (the process must exit)
            Some(nodes) => match dfs.next_plan(&nodes) {
                Some(p) => plan = p,
                None => {
                    o.exhausted = true;
                    break;
                }
            },
        }
        if o.executions >= ex.max_runs {
            break;
        }
    }
    // random priorities beyond the bound
    for k in 0..ex.random_runs {
        let strat = Strategy::Random { seed: ex.seed.wrapping_mul(7919).wrapping_add(k), depth: 3 };
        if run_one(Vec::new(), &strat, &mut o, out).is_none() {
            return o;
        }
    }
    o
}

// ------------------------------------------------------------------------------------------ C14
/// threads x pairs of build/exit on one resource; `inbound[i]`; `hold[i]` = the thread leaves its last
/// entry un-exited; `clock` = 0 (fixed), else a pseudo-thread advances the clock by that many ms once
#[derive(Clone, Debug)]
pub struct C14Scn {
    pub name: String,
    pub threads: usize,
    pub pairs: usize,
    pub inbound: Vec<bool>,
    pub hold: Vec<bool>,
    pub existing: bool,
    pub clock_ms: u64,
    pub at_ms: u64, // position of the start instant inside its 500 ms bucket
}

pub fn c14_scenarios(thorough: bool) -> Vec<C14Scn> {
    let mut v = Vec::new();
    let mut add = |name: &str, threads: usize, pairs: usize, inbound: Vec<bool>, hold: Vec<bool>, existing: bool, clock_ms: u64, at_ms: u64| {
        v.push(C14Scn { name: name.into(), threads, pairs, inbound, hold, existing, clock_ms, at_ms });
    };
    add("fresh-2x1", 2, 1, vec![false, false], vec![false, false], false, 0, 100);
    add("fresh-2x1-hold", 2, 1, vec![false, true], vec![true, false], false, 0, 100);
    add("existing-2x1-in", 2, 1, vec![true, true], vec![false, false], true, 0, 100);
    add("existing-2x2", 2, 2, vec![false, true], vec![false, false], true, 0, 100);
    add("fresh-2x1-clock-in-bucket", 2, 1, vec![false, false], vec![false, false], false, 3, 100);
    add("existing-2x1-clock-rolls", 2, 1, vec![false, false], vec![false, false], true, 3, 498);
    if thorough {
        add("fresh-3x1", 3, 1, vec![false, true, false], vec![false, false, true], false, 0, 100);
        add("fresh-2x2", 2, 2, vec![true, false], vec![false, true], false, 0, 100);
        add("existing-3x1-clock-rolls", 3, 1, vec![false, false, false], vec![false, false, false], true, 2, 499);
    }
    v
}

static EPOCH_MS: AtomicU64 = AtomicU64::new(1_700_100_000_000);

pub fn c14_filter() -> Box<dyn Fn(&Pending) -> bool + Send + Sync> {
    // scheduling points: the node map, the statistics (buckets, counters, the concurrency counter) and
    // explicit yield points; the per-entry context locks and the rule maps are passed through
    Box::new(|p: &Pending| p.site.is_empty() || p.site.starts_with("core/stat/"))
}

pub fn c14_make(scn: &C14Scn, exec_no: u64, rec: &Arc<Recorder>) -> (Vec<Box<dyn FnOnce() + Send>>, Box<dyn FnOnce(&Verdict) -> Vec<Value>>) {
    // a fresh epoch far from the previous execution, at the requested position inside a bucket
    let t0 = EPOCH_MS.fetch_add(60_000, Ordering::SeqCst) + 60_000;
    let t0 = t0 - t0 % 10_000;
    clock::set_ns((t0 + scn.at_ms) * 1_000_000);
    let res = format!("c14-{}-{}-{}", scn.name, std::process::id(), exec_no);
    if scn.existing {
        stat::get_or_create_resource_node(&res, &ResourceType::Common);
    }
    let inbound_before = stat::inbound_node().current_concurrency();
    let held: Arc<Mutex<Vec<sentinel_core::base::EntryStrongPtr>>> = Arc::new(Mutex::new(Vec::new()));
    let mut bodies: Vec<Box<dyn FnOnce() + Send>> = Vec::new();
    let _ = rec.take();
    for th in 0..scn.threads {
        let (res, rec, held) = (res.clone(), rec.clone(), held.clone());
        let (pairs, inbound, hold) = (scn.pairs, scn.inbound[th], scn.hold[th]);
        bodies.push(Box::new(move || {
            for k in 0..pairs {
                let id = th * 10 + k;
                let mut b = EntryBuilder::new(res.clone()).with_batch_count(1);
                if inbound {
                    b = b.with_traffic_type(TrafficType::Inbound);
                }
                let t_build = rel_ms(t0);
                let r = guarded(|| b.build());
                match r {
                    Ok(Ok(e)) => {
                        let node = e.context().read().unwrap().stat_node().map(|n| Arc::as_ptr(&n) as *const () as usize).unwrap_or(0);
                        rec.put(json!({"e": "build", "th": th, "id": id, "r": "pass", "node": node, "in": inbound, "t": t_build, "t2": rel_ms(t0)}));
                        if hold && k + 1 == pairs {
                            held.lock().unwrap().push(e);
                        } else {
                            let t_exit = rel_ms(t0);
                            let r = guarded(|| e.exit());
                            rec.put(json!({"e": "exit", "th": th, "id": id, "r": if r.is_ok() { "ok" } else { "panic" }, "t": t_exit, "t2": rel_ms(t0)}));
                        }
                    }
                    Ok(Err(_)) => rec.put(json!({"e": "build", "th": th, "id": id, "r": "block", "node": 0, "in": inbound, "t": t_build, "t2": rel_ms(t0)})),
                    Err(p) => rec.put(json!({"e": "build", "th": th, "id": id, "r": "panic", "panic": p, "node": 0, "in": inbound, "t": t_build, "t2": rel_ms(t0)})),
                }
            }
        }));
    }
    if scn.clock_ms > 0 {
        let (rec, dt) = (rec.clone(), scn.clock_ms);
        bodies.push(Box::new(move || {
            sync::yield_point(1);
            clock::advance_ms(dt);
            rec.put(json!({"e": "clock", "dt": dt, "t": rel_ms(t0)}));
        }));
    }
    let scn = scn.clone();
    let rec = rec.clone();
    let finish = Box::new(move |_v: &Verdict| -> Vec<Value> {
        let mut evs = vec![json!({"e": "begin", "scn": scn.name, "threads": scn.threads, "existing": scn.existing,
                                  "t": scn.at_ms, "bucket": 500})];
        let calls = rec.take();
        // node identities as small numbers
        let mut ids: HashMap<u64, u64> = HashMap::new();
        for mut c in calls {
            if let Some(n) = c.get("node").and_then(|x| x.as_u64()) {
                if n != 0 {
                    let k = ids.len() as u64 + 1;
                    let v = *ids.entry(n).or_insert(k);
                    c["node"] = json!(v);
                }
            }
            evs.push(c);
        }
        let node = stat::get_resource_node(&res);
        let mut end = json!({"e": "end", "t": rel_ms(t0)});
        match node {
            Some(n) => {
                let sums: Vec<u64> = KINDS.iter().map(|k| n.sum(*k)).collect();
                end["sum"] = json!(sums);
                end["conc"] = json!(n.current_concurrency());
                let shared = ids.get(&(Arc::as_ptr(&n) as *const () as usize as u64)).cloned().unwrap_or(0);
                end["shared"] = json!(shared);
            }
            None => {
                end["sum"] = json!([0, 0, 0, 0, 0]);
                end["conc"] = json!(0);
                end["shared"] = json!(0);
            }
        }
        end["inb"] = json!(stat::inbound_node().current_concurrency() as i64 - inbound_before as i64);
        evs.push(end);
        // release what was held, so the global inbound node is clean for the next execution
        for e in std::mem::take(&mut *held.lock().unwrap()) {
            let _ = guarded(|| e.exit());
        }
        evs
    });
    (bodies, finish)
}

pub fn warm_up() {
    // touch every lazy static once outside the scheduler (a thread parked inside a `Once` initialiser
    // would block the others invisibly)
    clock::set_ns(1_700_000_000_000 * 1_000_000);
    let _ = flow::get_rules();
    let _ = hotspot::get_rules();
    let _ = isolation::get_rules();
    let _ = cb::get_rules();
    let _ = system::get_rules();
    let _ = stat::inbound_node();
    for inbound in [false, true] {
        let mut b = EntryBuilder::new("warm-up".into());
        if inbound {
            b = b.with_traffic_type(TrafficType::Inbound);
        }
        if let Ok(e) = b.build() {
            e.exit();
        }
    }
}

pub fn run_c14(a: &Args) {
    let thorough = a.get_or("tier", "quick") == "thorough";
    let mut out = Out::create(a.get("out"));
    warm_up();
    let s = Sched::new(c14_filter());
    sched::install(&s);
    let rec = Recorder::new();
    let mut summary = Vec::new();
    let only = a.get_or("scenario", "");
    let plan: Option<Vec<usize>> = a.map.get("plan").map(|p| p.split(',').filter(|x| !x.is_empty()).map(|x| x.parse().unwrap()).collect());
    for scn in c14_scenarios(thorough) {
        if !only.is_empty() && only != scn.name {
            continue;
        }
        let ex = Explore {
            bound: a.num("bound", if thorough { 3 } else { 2 }) as u32,
            max_runs: a.num("max", if thorough { 200_000 } else { 12_000 }),
            random_runs: a.num("random", if thorough { 5000 } else { 300 }),
            seed: a.num("seed", 1),
            plan: plan.clone(),
        };
        let o = explore(&s, &ex, &mut out, &scn.name, |n| c14_make(&scn, n, &rec));
        summary.push(json!({"scenario": scn.name, "executions": o.executions, "distinct_traces": o.distinct,
                            "dfs_exhausted": o.exhausted, "diverged": o.diverged, "verdicts": o.verdicts}));
        if !o.verdicts.is_empty() {
            break;
        }
    }
    sync::uninstall();
    println!("{}", json!({"summary": summary}));
    out.finish();
    // threads of an abandoned execution may still be parked
    std::process::exit(0);
}
