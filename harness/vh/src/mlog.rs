//! C19 driver: the real `DefaultMetricLogWriter` / `DefaultMetricSearcher` in a scratch directory,
//! under the virtual clock.  Inputs: `reset` (limits, creation second), `write` (second, items).
//! After every write the driver asks a battery of searches (inputs chosen here: every window of
//! whole seconds around the written ones, every line limit) on ONE searcher kept for the history,
//! and for a set of prefixes of the recorded file-operation stream it rebuilds the directory a crash
//! would have left and searches it with a fresh searcher.  Everything observed is logged; what a
//! search must return is decided by TLC (MetricLog.tla).
use crate::util::*;
use rand::Rng;
use sentinel_core::base::MetricItem;
use sentinel_core::config;
use sentinel_core::log::metric::{DefaultMetricLogWriter, DefaultMetricSearcher, MetricLogWriter, MetricSearcher};
use sentinel_core::verif::{clock, fileobs};
use serde_json::{json, Value};
use std::collections::HashMap;
use std::path::{Path, PathBuf};

/// day-aligned epoch second: spec seconds are relative to it
const BASE_SEC: u64 = 1_700_006_400;
const APP: &str = "app";

#[derive(Clone, Debug)]
enum Op {
    Create(String),
    Remove(String),
    Log(Vec<u8>),
    Idx(Vec<u8>),
}

fn unit_len(op: &Op) -> usize {
    match op {
        Op::Create(_) | Op::Remove(_) => 1,
        Op::Log(b) | Op::Idx(b) => b.len(),
    }
}

pub struct MLog {
    root: PathBuf, // scratch root; every history gets sub-directories of it
    hist: u64,
    dir: PathBuf,
    base_filename: String,
    writer: Option<DefaultMetricLogWriter>,
    searcher: Option<DefaultMetricSearcher>,
    stream: Vec<Op>, // everything the writer issued, in program order
    lines: HashMap<u64, String>, // serial -> the line as written
    secs: Vec<u64>,  // seconds written (relative), creation second first
    ress: Vec<String>,
    nitems: usize,
    crash_mode: String,
    last_call_from: usize, // index into stream where the last call's operations start
    rng: rand::rngs::StdRng,
}

fn label(path: &str, base: &str) -> (String, bool) {
    // ".../app-metrics.log.2023-11-14.1(.idx)" -> (".2023-11-14.1", is_idx)
    let name = Path::new(path).file_name().and_then(|x| x.to_str()).unwrap_or(path).to_string();
    let is_idx = name.ends_with(".idx");
    let name = name.trim_end_matches(".idx").to_string();
    let lab = match name.find(base) {
        Some(p) => name[p + base.len()..].to_string(),
        None => name,
    };
    (lab, is_idx)
}

impl MLog {
    pub fn new(root: &str, seed: u64) -> MLog {
        let _ = std::fs::remove_dir_all(root);
        std::fs::create_dir_all(root).unwrap();
        MLog {
            root: PathBuf::from(root),
            hist: 0,
            dir: PathBuf::new(),
            base_filename: fileobs::metric_filename(APP, false),
            writer: None,
            searcher: None,
            stream: Vec::new(),
            lines: HashMap::new(),
            secs: Vec::new(),
            ress: Vec::new(),
            nitems: 0,
            crash_mode: "sample".into(),
            last_call_from: 0,
            rng: rng(seed),
        }
    }

    fn take_ops(&mut self) -> Vec<Op> {
        let mut out = Vec::new();
        for o in fileobs::take() {
            out.push(match o {
                fileobs::FileOp::Create(p) => Op::Create(p),
                fileobs::FileOp::Remove(p) => Op::Remove(p),
                fileobs::FileOp::WriteLog(b) => Op::Log(b),
                fileobs::FileOp::WriteIdx(b) => Op::Idx(b),
            });
        }
        out
    }

    /// the operations as the specification sees them: index entries as one 16-byte unit, each
    /// line named by the serial it carries, files by their label
    fn ops_json(&self, ops: &[Op]) -> Value {
        let mut out: Vec<Value> = Vec::new();
        let mut cur = String::new();
        // the file being written when these operations start
        for o in &self.stream[..self.last_call_from] {
            if let Op::Create(p) = o {
                let (l, is_idx) = label(p, &self.base_filename);
                if !is_idx {
                    cur = l;
                }
            }
        }
        let mut pending_idx: Option<(Vec<u8>, String)> = None;
        for o in ops {
            match o {
                Op::Create(p) => {
                    let (l, is_idx) = label(p, &self.base_filename);
                    if is_idx {
                        out.push(json!({"k": "createidx", "f": l}));
                    } else {
                        cur = l.clone();
                        out.push(json!({"k": "create", "f": l}));
                    }
                }
                Op::Remove(p) => {
                    let (l, is_idx) = label(p, &self.base_filename);
                    out.push(json!({"k": if is_idx { "removeidx" } else { "remove" }, "f": l}));
                }
                Op::Idx(b) => {
                    let (mut acc, f) = pending_idx.take().unwrap_or((Vec::new(), cur.clone()));
                    acc.extend_from_slice(b);
                    if acc.len() >= 16 {
                        let sec = u64::from_be_bytes(acc[0..8].try_into().unwrap());
                        out.push(json!({"k": "idx", "f": f, "n": acc.len(), "sec": sec as i64 - BASE_SEC as i64}));
                    } else {
                        pending_idx = Some((acc, f));
                    }
                }
                Op::Log(b) => {
                    let line = String::from_utf8_lossy(b).to_string();
                    let serial = line.split('|').nth(3).and_then(|x| x.parse::<u64>().ok()).unwrap_or(0);
                    out.push(json!({"k": "line", "f": cur, "n": b.len(), "s": serial}));
                }
            }
        }
        if let Some((acc, f)) = pending_idx {
            out.push(json!({"k": "idx", "f": f, "n": acc.len(), "sec": -1}));
        }
        Value::Array(out)
    }

    fn reset(&mut self, ev: &mut Value) {
        self.writer = None;
        self.searcher = None;
        self.hist += 1;
        self.stream.clear();
        self.lines.clear();
        self.secs.clear();
        self.ress.clear();
        self.nitems = 0;
        self.last_call_from = 0;
        self.crash_mode = ev.get("crash").and_then(|x| x.as_str()).unwrap_or("sample").to_string();
        let t = u(ev, "t");
        self.dir = self.root.join(format!("h{}", self.hist)).join("logs");
        let slash = ev.get("slash").and_then(|x| x.as_bool()).unwrap_or(true);
        let mut ce = config::ConfigEntity::new();
        ce.config.app.app_name = APP.into();
        ce.config.log.metric.dir = if slash { format!("{}/", self.dir.display()) } else { format!("{}", self.dir.display()) };
        ce.config.log.metric.use_pid = false;
        config::reset_global_config(ce);
        clock::set_ns((BASE_SEC + t) * 1_000_000_000 + 1_000_000);
        fileobs::start();
        let r = guarded(|| DefaultMetricLogWriter::new(u(ev, "maxsize"), u(ev, "maxfiles") as usize));
        let ops = self.take_ops();
        ev["ops"] = self.ops_json(&ops);
        self.stream.extend(ops);
        self.last_call_from = self.stream.len();
        match r {
            Ok(Ok(w)) => {
                self.writer = Some(w);
                ev["ok"] = json!(true);
            }
            Ok(Err(e)) => {
                ev["ok"] = json!(false);
                ev["err"] = json!(e.to_string());
            }
            Err(p) => {
                ev["ok"] = json!(false);
                ev["panic"] = json!(p);
            }
        }
        self.secs.push(t);
        match DefaultMetricSearcher::new(format!("{}", self.dir.display()), self.base_filename.clone()) {
            Ok(s) => self.searcher = Some(s),
            Err(e) => ev["searcher_err"] = json!(e.to_string()),
        }
    }

    fn write(&mut self, ev: &mut Value) {
        let t = u(ev, "t");
        let ms = ev.get("ms").and_then(|x| x.as_u64()).unwrap_or(0);
        let ts = (BASE_SEC + t) * 1000 + ms;
        clock::set_ns(ts * 1_000_000);
        let mut items: Vec<MetricItem> = Vec::new();
        for it in ev["items"].as_array().cloned().unwrap_or_default() {
            let line = format!("{}|x|{}|{}|0|0|0|0|0|0|0", ts, s(&it, "res"), u(&it, "s"));
            items.push(MetricItem::from_string(&line).expect("harness item"));
            if !self.ress.contains(&s(&it, "res").to_string()) {
                self.ress.push(s(&it, "res").to_string());
            }
        }
        self.last_call_from = self.stream.len();
        let w = self.writer.as_mut();
        let r = match w {
            Some(w) => guarded(|| w.write(ts, &mut items)),
            None => Ok(Err(sentinel_core::Error::msg("no writer"))),
        };
        let ops = self.take_ops();
        for o in &ops {
            if let Op::Log(b) = o {
                let line = String::from_utf8_lossy(b).trim_end_matches('\n').to_string();
                if let Some(serial) = line.split('|').nth(3).and_then(|x| x.parse::<u64>().ok()) {
                    self.lines.insert(serial, line);
                }
            }
        }
        ev["ops"] = self.ops_json(&ops);
        self.stream.extend(ops);
        ev["ret"] = match r {
            Ok(Ok(())) => json!("ok"),
            Ok(Err(e)) => {
                ev["err"] = json!(e.to_string());
                json!("err")
            }
            Err(p) => {
                ev["panic"] = json!(p);
                json!("panic")
            }
        };
        if !self.secs.contains(&t) {
            self.secs.push(t);
        }
        self.nitems += items.len();
    }

    fn run_query(&self, srch: &DefaultMetricSearcher, q: &mut Value) {
        let to_abs = |rel_ms: i64| -> u64 { (BASE_SEC as i64 * 1000 + rel_ms) as u64 };
        let r = if q["kind"] == "time" {
            guarded(|| srch.find_by_time_and_resource(to_abs(i(q, "b")), to_abs(i(q, "e2")), s(q, "res")))
        } else {
            guarded(|| srch.find_from_time_with_max_lines(to_abs(i(q, "b")), u(q, "max") as usize))
        };
        match r {
            Ok(Ok(items)) => {
                let out: Vec<Value> = items
                    .iter()
                    .map(|it| {
                        let line = it.to_string();
                        let serial = line.split('|').nth(3).and_then(|x| x.parse::<u64>().ok()).unwrap_or(0);
                        let exact = self.lines.get(&serial).map(|l| l == &line).unwrap_or(false);
                        json!({"s": serial, "x": exact})
                    })
                    .collect();
                q["out"] = Value::Array(out);
                q["ret"] = json!("ok");
            }
            Ok(Err(e)) => {
                q["out"] = json!([]);
                q["ret"] = json!("err");
                q["err"] = json!(e.to_string());
            }
            Err(p) => {
                q["out"] = json!([]);
                q["ret"] = json!("panic");
                q["panic"] = json!(p);
            }
        }
    }

    fn query_inputs(&mut self, full: bool) -> Vec<Value> {
        let mut secs: Vec<i64> = self.secs.iter().map(|x| *x as i64).collect();
        let lo = *secs.iter().min().unwrap();
        let hi = *secs.iter().max().unwrap();
        secs.push(lo - 1);
        secs.push(hi + 1);
        secs.sort();
        secs.dedup();
        let mut ress: Vec<String> = vec!["".into()];
        ress.extend(self.ress.iter().cloned());
        let mut qs = Vec::new();
        if full {
            for b in &secs {
                for e in &secs {
                    for r in &ress {
                        // begin / end anywhere inside their second
                        let (bo, eo) = (*pick(&mut self.rng, &[0i64, 0, 500, 999]), *pick(&mut self.rng, &[0i64, 999, 999, 250]));
                        qs.push(json!({"kind": "time", "b": b * 1000 + bo, "e2": e * 1000 + eo, "res": r}));
                    }
                }
                for m in 0..=(self.nitems as u64 + 1) {
                    qs.push(json!({"kind": "from", "b": b * 1000 + *pick(&mut self.rng, &[0i64, 999]), "max": m}));
                }
            }
        } else {
            qs.push(json!({"kind": "time", "b": (lo - 1) * 1000, "e2": (hi + 1) * 1000 + 999, "res": ""}));
            qs.push(json!({"kind": "from", "b": (lo - 1) * 1000, "max": 1000}));
            let b = *pick(&mut self.rng, &secs);
            let e = *pick(&mut self.rng, &secs);
            let r = pick(&mut self.rng, &ress).clone();
            qs.push(json!({"kind": "time", "b": b * 1000, "e2": e * 1000 + 999, "res": r}));
            qs.push(json!({"kind": "from", "b": b * 1000, "max": self.rng.gen_range(0..=(self.nitems as u64 + 1))}));
        }
        qs
    }

    /// the directory a crash after the first k units of the stream would have left
    fn build_crash_dir(&self, k: usize, into: &Path) {
        let _ = std::fs::remove_dir_all(into);
        std::fs::create_dir_all(into).unwrap();
        let remap = |p: &str| -> PathBuf { into.join(Path::new(p).file_name().unwrap()) };
        let mut used = 0usize;
        let mut cur_log: Option<PathBuf> = None;
        let mut cur_idx: Option<PathBuf> = None;
        use std::io::Write;
        for o in &self.stream {
            let n = unit_len(o);
            let avail = k.saturating_sub(used);
            if avail == 0 {
                break;
            }
            match o {
                Op::Create(p) => {
                    let q = remap(p);
                    std::fs::File::create(&q).unwrap();
                    if p.ends_with(".idx") {
                        cur_idx = Some(q);
                    } else {
                        cur_log = Some(q);
                    }
                }
                Op::Remove(p) => {
                    let _ = std::fs::remove_file(remap(p));
                }
                Op::Log(b) | Op::Idx(b) => {
                    let target = if matches!(o, Op::Log(_)) { &cur_log } else { &cur_idx };
                    if let Some(t) = target {
                        let mut f = std::fs::OpenOptions::new().append(true).open(t).unwrap();
                        f.write_all(&b[..avail.min(n)]).unwrap();
                    }
                }
            }
            used += n;
        }
    }

    fn crash_points(&mut self) -> Vec<usize> {
        let total: usize = self.stream.iter().map(unit_len).sum();
        let before: usize = self.stream[..self.last_call_from].iter().map(unit_len).sum();
        match self.crash_mode.as_str() {
            "none" => vec![],
            // every prefix that ends inside the last call (earlier ones were examined after earlier calls)
            "all" => (before..=total).collect(),
            _ => {
                // operation boundaries of the last call, every position inside its index entries, and a
                // sample of positions inside its lines
                let mut v = vec![before, total];
                let mut p = before;
                for o in &self.stream[self.last_call_from..] {
                    let n = unit_len(o);
                    match o {
                        Op::Idx(_) => v.extend(p + 1..p + n),
                        Op::Log(_) => {
                            v.push(p + 1);
                            v.push(p + n - 1);
                            v.push(p + self.rng.gen_range(1..n.max(2)));
                            v.push(p + n.saturating_sub(self.rng.gen_range(1..8usize)).max(1));
                        }
                        _ => {}
                    }
                    p += n;
                    v.push(p);
                }
                v.sort();
                v.dedup();
                v.retain(|x| *x <= total);
                v
            }
        }
    }

    pub fn exec(&mut self, evs: &[Value]) -> Vec<Value> {
        let mut out = Vec::new();
        for ev in evs {
            let mut ev = ev.clone();
            match s(&ev, "e") {
                "reset" => {
                    self.reset(&mut ev);
                    out.push(ev);
                }
                "write" => {
                    self.write(&mut ev);
                    let full = ev.get("q").and_then(|x| x.as_str()).unwrap_or("full") == "full";
                    out.push(ev);
                    // searches on the live directory, one searcher for the whole history
                    for mut q in self.query_inputs(full) {
                        q["e"] = json!("q");
                        if let Some(sr) = self.searcher.as_ref() {
                            self.run_query(sr, &mut q);
                        } else {
                            q["ret"] = json!("nosearcher");
                            q["out"] = json!([]);
                        }
                        out.push(q);
                    }
                    // crash points inside this call
                    let cdir = self.root.join(format!("h{}", self.hist)).join("crash").join("logs");
                    for k in self.crash_points() {
                        self.build_crash_dir(k, &cdir);
                        let sr = DefaultMetricSearcher::new(format!("{}", cdir.display()), self.base_filename.clone()).unwrap();
                        for mut q in self.query_inputs(false) {
                            q["e"] = json!("cq");
                            q["k"] = json!(k);
                            self.run_query(&sr, &mut q);
                            out.push(q);
                        }
                    }
                }
                other => panic!("unknown event {}", other),
            }
        }
        let _ = std::fs::remove_dir_all(self.root.join(format!("h{}", self.hist)));
        // the writer also writes beside the directory when the separator is missing (D20): clean that too
        out
    }
}

fn pick<'a, T>(rng: &mut impl Rng, xs: &'a [T]) -> &'a T {
    &xs[rng.gen_range(0..xs.len())]
}

/// seeded random write histories (inputs only)
pub fn random_history(rng: &mut impl Rng, len: usize, crash: &str) -> Vec<Value> {
    let start = *pick(rng, &[86_390u64, 86_395, 50_000, 86_399]);
    let maxfiles = rng.gen_range(1..=4u64);
    // a line is about 60 bytes
    let maxsize = *pick(rng, &[100u64, 150, 300, 1000, 1_000_000]);
    let mut evs = vec![json!({"e": "reset", "t": start, "maxfiles": maxfiles, "maxsize": maxsize,
                              "slash": rng.gen_range(0..8) != 0, "crash": crash})];
    let mut t = start;
    let mut serial = 0u64;
    let ress = ["a", "b", "c/d"];
    for _ in 0..len {
        t += *pick(rng, &[0u64, 1, 1, 1, 2, 5, 60]);
        if rng.gen_range(0..10) == 0 && t < 86_400 {
            t = 86_400 + rng.gen_range(0..2u64);
        }
        let n = rng.gen_range(1..=3usize);
        let mut items = Vec::new();
        for _ in 0..n {
            serial += 1;
            items.push(json!({"s": serial, "res": *pick(rng, &ress)}));
        }
        evs.push(json!({"e": "write", "t": t, "ms": rng.gen_range(0..1000u64), "items": items,
                        "q": if rng.gen_bool(0.3) { "full" } else { "few" }}));
    }
    evs
}
