//! Seeded random history generators for the I->S direction (inputs only).
use rand::Rng;
use serde_json::{json, Value};

fn pick<'a, T>(rng: &mut impl Rng, xs: &'a [T]) -> &'a T {
    &xs[rng.gen_range(0..xs.len())]
}

/// time step biased towards bucket boundaries of length `l` and interval `iv`
pub fn step(rng: &mut impl Rng, t: u64, l: u64, iv: u64) -> u64 {
    match rng.gen_range(0..14) {
        0..=4 => 0,
        5 => 1,
        6 => l - (t % l),
        7 => (l - (t % l)).saturating_sub(1),
        8 => l,
        9 => iv - (t % iv),
        10 => iv,
        11 => rng.gen_range(0..=3 * iv),
        12 => rng.gen_range(0..=l),
        _ => rng.gen_range(0..=iv),
    }
}

/// C01: direct/reject flow rules on the default geometry.
pub fn c01(rng: &mut impl Rng, len: usize) -> Vec<Value> {
    // one history in four uses a private window whose length is no multiple of the global bucket length
    // (the epoch must be a multiple of every private interval, so the other rules then stay on short ones)
    let weird = if rng.gen_range(0..4) == 0 { *pick(rng, &[1300u64, 1251, 2750, 9999]) } else { 0 };
    let base: [u64; 12] = [0, 500, 1000, 1500, 2000, 2500, 5000, 10000, 250, 700, 20000, 3000];
    let intervals: Vec<u64> = if weird > 0 { vec![0, 500, 1000, 2000, weird, weird] } else { base.to_vec() };
    let align = if weird > 0 { crate::util::lcm(2000, weird) } else { 2_100_000 };
    let thr: [[u64; 2]; 9] = [[0, 1], [1, 1], [3, 2], [2, 1], [5, 2], [3, 1], [7, 2], [5, 1], [10, 1]];
    let mut evs = vec![json!({"e": "reset", "t": rng.gen_range(0..20000u64), "obs": 0,
        "cfg": {"nt": 20, "It": 10000, "n": 2, "I": 1000}, "align": align})];
    let mut t = evs[0]["t"].as_u64().unwrap();
    let nres = rng.gen_range(1..=2);
    let mut rules = Vec::new();
    let mut k = 0;
    for r in 0..nres {
        for _ in 0..rng.gen_range(1..=3) {
            k += 1;
            rules.push(json!({"id": format!("f{}", k), "res": format!("r{}", r + 1),
                "thr": pick(rng, &thr), "I": pick(rng, &intervals)}));
        }
    }
    // now and then a memory-adaptive rule: its threshold moves with the collected memory usage
    // (water marks 1024 apart and readings on multiples of 128, so the interpolation is exact in f64)
    let with_mem = rng.gen_range(0..5) == 0;
    let mlw = 1024 * rng.gen_range(1..=3u64);
    if with_mem {
        k += 1;
        rules.push(json!({"id": format!("f{}", k), "res": "r1", "thr": [1, 1], "I": *pick(rng, &[0u64, 1000, 2000]), "calc": "mem",
            "lmu": *pick(rng, &[4u64, 8, 10]), "hmu": *pick(rng, &[1u64, 2, 3]), "mlw": mlw, "mhw": mlw + 1024}));
    }
    let max_iv = rules.iter().map(|r| r["I"].as_u64().unwrap()).max().unwrap().max(1000);
    evs.push(json!({"e": "load", "fam": "flow", "op": "all", "t": t, "rules": rules}));
    let mut open: Vec<u64> = Vec::new();
    let mut id = 0;
    for _ in 0..len {
        if with_mem && rng.gen_range(0..4) == 0 {
            let v = *pick(rng, &[0u64, mlw - 1, mlw, mlw + 128, mlw + 512, mlw + 896, mlw + 1024, mlw + 1025, 1_000_000]);
            evs.push(json!({"e": "sysmem", "v": v, "t": t}));
        }
        let rule = pick(rng, &rules).clone();
        let iv = rule["I"].as_u64().unwrap();
        let l = if iv == 700 || iv == 250 || iv == 20000 || (weird > 0 && iv == weird) { iv } else { 500 };
        let span = if rng.gen_bool(0.5) { iv.max(500) } else { max_iv };
        t += step(rng, t, l, span);
        match rng.gen_range(0..10) {
            0 => evs.push(json!({"e": "adv", "t": t})),
            1 | 2 if !open.is_empty() => {
                let i = rng.gen_range(0..open.len());
                evs.push(json!({"e": "exit", "id": open.remove(i), "t": t}));
            }
            _ => {
                id += 1;
                open.push(id); // exits of blocked entries are skipped by the executor
                evs.push(json!({"e": "enter", "id": id, "res": rule["res"], "n": rng.gen_range(0..=4u64), "t": t}));
            }
        }
    }
    evs
}

fn hot_conc_rule(rng: &mut impl Rng, id: String, res: &str) -> Value {
    let vals = ["a", "b", "c", "d"];
    let mut spec = serde_json::Map::new();
    for v in vals.iter() {
        if rng.gen_range(0..4) == 0 {
            spec.insert(v.to_string(), json!(rng.gen_range(1..=3u64)));
        }
    }
    let keyed = rng.gen_range(0..3) == 0;
    json!({"id": id, "res": res, "metric": "conc", "ctl": "reject",
        "idx": if keyed { 0 } else { rng.gen_range(-3..=3i64) },
        "key": if keyed { "k" } else { "" },
        "thr": rng.gen_range(1..=3u64), "spec": spec, "dur": 0, "burst": 0, "maxq": 0, "cap": 0})
}

fn rand_args(rng: &mut impl Rng) -> (Option<Value>, Option<Value>) {
    let vals = ["a", "b", "c", "d"];
    let args = match rng.gen_range(0..6) {
        0 => None,
        _ => {
            let n = rng.gen_range(0..=3);
            Some(json!((0..n).map(|_| *pick(rng, &vals)).collect::<Vec<_>>()))
        }
    };
    let att = match rng.gen_range(0..3) {
        0 => Some(json!({"k": *pick(rng, &vals)})),
        1 => Some(json!({"other": "z"})),
        _ => None,
    };
    (args, att)
}

fn push_enter(rng: &mut impl Rng, evs: &mut Vec<Value>, id: u64, res: &str, n: u64, inb: bool, t: u64, with_args: bool) {
    let mut e = json!({"e": "enter", "id": id, "res": res, "n": n, "in": inb, "t": t});
    // now and then the caller classifies the resource differently (web, rpc, ...): the resource is the name
    if rng.gen_range(0..5) == 0 {
        e["kind"] = json!(rng.gen_range(0..=6u64));
    }
    if with_args {
        let (a, at) = rand_args(rng);
        if let Some(a) = a {
            e["args"] = a;
        }
        if let Some(at) = at {
            e["att"] = at;
        }
    }
    evs.push(e);
}

/// C05: isolation and hotspot-concurrency rules only (no foreign family), so every decision is owed.
pub fn c05(rng: &mut impl Rng, len: usize) -> Vec<Value> {
    let t0 = rng.gen_range(0..20000u64);
    let mut evs = vec![json!({"e": "reset", "t": t0, "obs": 1, "cfg": {"nt": 20, "It": 10000, "n": 2, "I": 1000}})];
    let mut t = t0;
    let ress = ["r1", "r2"];
    let mut iso = Vec::new();
    let mut hot = Vec::new();
    let mode = rng.gen_range(0..3); // 0 iso only, 1 hot only, 2 both
    for (ri, r) in ress.iter().enumerate() {
        if mode != 1 {
            for k in 0..rng.gen_range(0..=2) {
                iso.push(json!({"id": format!("i{}{}", ri, k), "res": r, "thr": rng.gen_range(1..=4u64)}));
            }
        }
        if mode != 0 {
            for k in 0..rng.gen_range(0..=2) {
                hot.push(hot_conc_rule(rng, format!("h{}{}", ri, k), r));
            }
        }
    }
    evs.push(json!({"e": "load", "fam": "iso", "op": "all", "t": t, "rules": iso}));
    evs.push(json!({"e": "load", "fam": "hot", "op": "all", "t": t, "rules": hot}));
    let mut open: Vec<u64> = Vec::new();
    let mut id = 0;
    for _ in 0..len {
        t += step(rng, t, 500, 1000);
        let want_exit = !open.is_empty() && rng.gen_range(0..10) < 4;
        if want_exit {
            let i = rng.gen_range(0..open.len());
            evs.push(json!({"e": "exit", "id": open.remove(i), "t": t}));
        } else if rng.gen_range(0..12) == 0 {
            evs.push(json!({"e": "adv", "t": t}));
        } else {
            id += 1;
            open.push(id);
            let res = *pick(rng, &ress);
            let n = if rng.gen_range(0..3) == 0 { rng.gen_range(2..=3) } else { 1 };
            let inb = rng.gen_bool(0.3);
            push_enter(rng, &mut evs, id, res, n, inb, t, true);
        }
    }
    evs
}

/// C04: rules of every family (no throttling: a sleeping check would move the clock inside a call)
/// produce blocks; accounting is checked on the resource nodes and the global inbound node.
pub fn c04(rng: &mut impl Rng, len: usize) -> Vec<Value> {
    let t0 = rng.gen_range(0..20000u64);
    let mut evs = vec![json!({"e": "reset", "t": t0, "obs": 2, "cfg": {"nt": 20, "It": 10000, "n": 2, "I": 1000}})];
    let mut t = t0;
    let ress = ["r1", "r2", "r3"];
    let (mut iso, mut hot, mut flw, mut cbs, mut sys) = (Vec::new(), Vec::new(), Vec::new(), Vec::new(), Vec::new());
    for (ri, r) in ress.iter().enumerate() {
        if rng.gen_range(0..3) == 0 {
            iso.push(json!({"id": format!("i{}", ri), "res": r, "thr": rng.gen_range(1..=3u64)}));
        }
        if rng.gen_range(0..3) == 0 {
            flw.push(json!({"id": format!("f{}", ri), "res": r, "thr": [rng.gen_range(0..=6u64), 1], "I": *pick(rng, &[0u64, 500, 2000, 700])}));
        }
        if rng.gen_range(0..5) == 0 {
            // a throttling rule holds the caller inside build(): the entry is recorded when it returns
            flw.push(json!({"id": format!("t{}", ri), "res": r, "calc": "direct", "ctl": "throttling",
                "thr": [rng.gen_range(1..=5u64), 1], "I": 1000, "maxq": *pick(rng, &[0u64, 300, 1000])}));
        }
        if rng.gen_range(0..4) == 0 {
            hot.push(hot_conc_rule(rng, format!("h{}", ri), r));
        }
        if rng.gen_range(0..4) == 0 {
            hot.push(json!({"id": format!("q{}", ri), "res": r, "metric": "qps", "ctl": "reject", "idx": 0, "key": "",
                "thr": rng.gen_range(0..=3u64), "spec": {}, "dur": 1, "burst": rng.gen_range(0..=1u64), "maxq": 0, "cap": 0}));
        }
        if rng.gen_range(0..4) == 0 {
            cbs.push(json!({"id": format!("c{}", ri), "res": r, "strat": "ecount", "retry": 1000, "minreq": 1,
                "I": 1000, "nb": 1, "maxrt": 0, "thr": [rng.gen_range(1..=2u64), 1]}));
        }
    }
    if rng.gen_range(0..4) == 0 {
        sys.push(json!({"id": "s1", "metric": "conc", "thr": [rng.gen_range(1..=3u64), 1], "strat": "none"}));
    }
    if rng.gen_range(0..5) == 0 {
        sys.push(json!({"id": "s2", "metric": "qps", "thr": [rng.gen_range(1..=5u64), 1], "strat": "none"}));
    }
    for (fam, rules) in [("iso", iso), ("flow", flw), ("hot", hot), ("cb", cbs), ("sys", sys)] {
        if !rules.is_empty() || fam == "iso" {
            evs.push(json!({"e": "load", "fam": fam, "op": "all", "t": t, "rules": rules}));
        }
    }
    let mut open: Vec<u64> = Vec::new();
    let mut id = 0;
    for _ in 0..len {
        let span = if rng.gen_bool(0.8) { 1000 } else { 10000 };
        t += step(rng, t, 500, span);
        if !open.is_empty() && rng.gen_range(0..10) < 4 {
            let i = rng.gen_range(0..open.len());
            evs.push(json!({"e": "exit", "id": open.remove(i), "t": t, "err": rng.gen_range(0..4) == 0}));
        } else if rng.gen_range(0..10) == 0 {
            evs.push(json!({"e": "adv", "t": t}));
        } else {
            id += 1;
            open.push(id);
            let res = *pick(rng, &ress);
            let n = rng.gen_range(1..=3u64);
            let inb = rng.gen_bool(0.5);
            push_enter(rng, &mut evs, id, res, n, inb, t, true);
        }
    }
    // all entries exited: the process-global inbound node is clean for the next history
    for i in open {
        t += rng.gen_range(0..300);
        evs.push(json!({"e": "exit", "id": i, "t": t}));
    }
    evs
}

/// C06: hotspot QPS reject rules only.
pub fn c06(rng: &mut impl Rng, len: usize) -> Vec<Value> {
    let t0 = rng.gen_range(0..20000u64);
    let mut evs = vec![json!({"e": "reset", "t": t0, "obs": 0, "cfg": {"nt": 20, "It": 10000, "n": 2, "I": 1000}})];
    let mut t = t0;
    let vals = ["a", "b", "c", "d"];
    let mut rules = Vec::new();
    let nrules = if rng.gen_range(0..4) == 0 { 2 } else { 1 };
    for k in 0..nrules {
        let mut spec = serde_json::Map::new();
        for v in vals.iter() {
            if rng.gen_range(0..4) == 0 {
                spec.insert(v.to_string(), json!(rng.gen_range(0..=4u64)));
            }
        }
        let keyed = rng.gen_range(0..4) == 0;
        rules.push(json!({"id": format!("h{}", k + 1), "res": "r1", "metric": "qps", "ctl": "reject",
            "idx": if keyed { 0 } else { rng.gen_range(-2..=2i64) }, "key": if keyed { "k" } else { "" },
            "thr": rng.gen_range(0..=5u64), "burst": rng.gen_range(0..=3u64), "dur": rng.gen_range(1..=3u64),
            "spec": spec, "cap": if rng.gen_range(0..3) == 0 { 4 } else { 0 }, "maxq": 0}));
    }
    evs.push(json!({"e": "load", "fam": "hot", "op": "all", "t": t, "rules": rules}));
    let d = rules[0]["dur"].as_u64().unwrap() * 1000;
    for id in 0..len as u64 {
        t += match rng.gen_range(0..12) {
            0..=3 => 0,
            4 => 1,
            5 => d,
            6 => d + 1,
            7 => d - 1,
            8 => 2 * d + 1,
            9 => rng.gen_range(0..=d / 2),
            10 => rng.gen_range(0..=3 * d),
            _ => rng.gen_range(0..=50),
        };
        let n = if rng.gen_range(0..3) == 0 { rng.gen_range(2..=4) } else { 1 };
        push_enter(rng, &mut evs, id + 1, "r1", n, false, t, true);
    }
    evs
}

/// Beyond C06: the same histories with a capacity of 1..3 entries for four values (LRU replacement).
pub fn c06lru(rng: &mut impl Rng, len: usize) -> Vec<Value> {
    let mut evs = c06(rng, len);
    if let Some(rules) = evs[1]["rules"].as_array_mut() {
        for r in rules.iter_mut() {
            r["cap"] = json!(rng.gen_range(1..=3u64));
        }
    }
    evs
}

/// Beyond C07: a hotspot throttling rule whose cache holds 1..2 of the three values.
pub fn c07lru(rng: &mut impl Rng, len: usize) -> Vec<Value> {
    loop {
        let mut evs = c07(rng, len);
        let mut any = false;
        if let Some(rules) = evs[2]["rules"].as_array_mut() {
            for r in rules.iter_mut() {
                r["cap"] = json!(rng.gen_range(1..=2u64));
                any = true;
            }
        }
        if any {
            return evs;
        }
    }
}

/// C07: one flow throttling rule and/or one hotspot throttling rule on a resource.
/// Arrival instants are requests; the executor logs the instant a call really happened at
/// (a queued call returns later than it arrived, the next call cannot arrive before that).
pub fn c07(rng: &mut impl Rng, len: usize) -> Vec<Value> {
    let t0 = rng.gen_range(0..20000u64);
    let mut evs = vec![json!({"e": "reset", "t": t0, "obs": 0, "cfg": {"nt": 20, "It": 10000, "n": 2, "I": 1000}})];
    let mut t = t0;
    let mode = rng.gen_range(0..5); // 0,1 flow only; 2,3 hot only; 4 both
    let mut flw = Vec::new();
    let mut hot = Vec::new();
    let mut spacing = 100u64;
    if mode != 2 && mode != 3 {
        let thr = *pick(rng, &[[1u64, 1], [2, 1], [3, 1], [5, 2], [10, 1], [100, 1], [1000, 1], [0, 1], [7, 1]]);
        let iv = *pick(rng, &[0u64, 100, 200, 1000, 3000, 10000]);
        let maxq = *pick(rng, &[0u64, 1, 50, 500, 1000, 2000]);
        spacing = if thr[0] == 0 { 100 } else { (if iv == 0 { 1000 } else { iv }) * thr[1] / thr[0] };
        flw.push(json!({"id": "f1", "res": "r1", "calc": "direct", "ctl": "throttling", "thr": thr, "I": iv, "maxq": maxq}));
        // sometimes a second throttling rule on the same resource: the caller is held by one after the other
        if rng.gen_range(0..3) == 0 {
            let thr2 = *pick(rng, &[[1u64, 1], [2, 1], [4, 1], [5, 1], [3, 2]]);
            let maxq2 = *pick(rng, &[0u64, 500, 1000, 2000, 5000]);
            flw.push(json!({"id": "f2", "res": "r1", "calc": "direct", "ctl": "throttling", "thr": thr2, "I": *pick(rng, &[0u64, 1000, 2000]), "maxq": maxq2}));
        }
    }
    if mode >= 2 {
        let q = rng.gen_range(0..=5u64);
        let dur = rng.gen_range(1..=3u64);
        let mut spec = serde_json::Map::new();
        if rng.gen_bool(0.4) {
            spec.insert("b".into(), json!(rng.gen_range(0..=3u64)));
        }
        if mode != 4 {
            spacing = if q == 0 { 100 } else { dur * 1000 / q };
        }
        hot.push(json!({"id": "h1", "res": "r1", "metric": "qps", "ctl": "throttling", "idx": 0, "key": "", "thr": q,
            "dur": dur, "maxq": *pick(rng, &[0u64, 1, 300, 1000, 2000]), "spec": spec, "burst": 0, "cap": 0}));
    }
    evs.push(json!({"e": "load", "fam": "flow", "op": "all", "t": t, "rules": flw}));
    evs.push(json!({"e": "load", "fam": "hot", "op": "all", "t": t, "rules": hot}));
    let vals = ["a", "b", "c"];
    for id in 0..len as u64 {
        // requested arrival: relative to the previous REQUESTED instant; the executor moves it
        // forward to the clock if the previous call was held longer
        t += match rng.gen_range(0..10) {
            0..=2 => 0,
            3 => 1,
            4 => spacing,
            5 => spacing.saturating_sub(1),
            6 => spacing + 1,
            7 => rng.gen_range(0..=spacing.max(1)),
            8 => rng.gen_range(0..=3 * spacing.max(1)),
            _ => spacing / 2,
        };
        let n = match rng.gen_range(0..8) {
            0 => 0,
            1 => 2,
            2 => 3,
            _ => 1,
        };
        evs.push(json!({"e": "enter", "id": id + 1, "res": "r1", "n": n, "t": t, "args": [*pick(rng, &vals)]}));
    }
    evs
}

/// C03: one or two circuit breakers on a resource, optionally an isolation rule so that probes get
/// blocked by another family.
pub fn c03(rng: &mut impl Rng, len: usize) -> Vec<Value> {
    let t0 = rng.gen_range(0..20000u64);
    let mut rules = Vec::new();
    let nb = if rng.gen_range(0..3) == 0 { 2 } else { 1 };
    let mut align = 1u64;
    let mut retry0 = 1000;
    let mut win0 = 1000;
    let mut maxrt0 = 50;
    for k in 0..nb {
        let strat = *pick(rng, &["slow", "eratio", "ecount"]);
        let iv = *pick(rng, &[1000u64, 2000, 3000, 500, 700, 1500]);
        let buckets = *pick(rng, &[0u64, 1, 2, 3, 4, 5]);
        let retry = *pick(rng, &[300u64, 500, 1000, 2500, 5000]);
        let maxrt = *pick(rng, &[0u64, 10, 50, 200]);
        let thr = if strat == "ecount" {
            json!([rng.gen_range(0..=3u64), 1])
        } else {
            pick(rng, &[json!([0, 1]), json!([1, 4]), json!([1, 2]), json!([3, 4]), json!([1, 1]), json!([1, 3])]).clone()
        };
        if k == 0 {
            retry0 = retry;
            win0 = iv;
            maxrt0 = maxrt;
        }
        align = crate::util::lcm(align, iv);
        rules.push(json!({"id": format!("c{}", k + 1), "res": "r1", "strat": strat, "retry": retry,
            "minreq": rng.gen_range(0..=4u64), "I": iv, "nb": buckets, "maxrt": maxrt, "thr": thr}));
    }
    let mut evs = vec![json!({"e": "reset", "t": t0, "obs": 1, "align": align,
        "cfg": {"nt": 20, "It": 10000, "n": 2, "I": 1000}})];
    let mut t = t0;
    if rng.gen_range(0..3) == 0 {
        evs.push(json!({"e": "load", "fam": "iso", "op": "all", "t": t,
            "rules": [{"id": "i1", "res": "r1", "thr": rng.gen_range(1..=2u64)}]}));
    }
    evs.push(json!({"e": "load", "fam": "cb", "op": "all", "t": t, "rules": rules}));
    let mut open: Vec<u64> = Vec::new();
    let mut id = 0;
    for _ in 0..len {
        t += match rng.gen_range(0..12) {
            0..=2 => 0,
            3 => 1,
            4 => maxrt0,
            5 => maxrt0 + 1,
            6 => retry0,
            7 => retry0.saturating_sub(1),
            8 => win0 / 2,
            9 => win0,
            10 => rng.gen_range(0..=2 * win0),
            _ => rng.gen_range(0..=100),
        };
        if !open.is_empty() && rng.gen_range(0..10) < 5 {
            let i = rng.gen_range(0..open.len());
            evs.push(json!({"e": "exit", "id": open.remove(i), "t": t, "err": rng.gen_bool(0.5)}));
        } else if rng.gen_range(0..10) == 0 {
            evs.push(json!({"e": "adv", "t": t}));
        } else {
            id += 1;
            open.push(id);
            evs.push(json!({"e": "enter", "id": id, "res": "r1", "n": 1, "t": t}));
        }
    }
    evs
}

/// C09: system rules; observed QPS / concurrency / RT come from real inbound traffic, load and
/// CPU are injected (dyadic values, exact in f32 and f64).
pub fn c09(rng: &mut impl Rng, len: usize) -> Vec<Value> {
    let t0 = rng.gen_range(0..20000u64);
    let mut evs = vec![json!({"e": "reset", "t": t0, "obs": 2, "cfg": {"nt": 20, "It": 10000, "n": 2, "I": 1000}})];
    let mut t = t0;
    let dy = [[0u64, 1], [1, 4], [1, 2], [3, 4], [1, 1], [3, 2], [5, 1], [50, 1], [201, 2]];
    let mut rules = Vec::new();
    for k in 0..rng.gen_range(1..=3) {
        let metric = *pick(rng, &["load", "rt", "conc", "qps", "cpu"]);
        let thr = match metric {
            "load" => json!(pick(rng, &[[0u64, 1], [1, 4], [1, 2], [3, 4], [1, 1], [3, 2]])),
            "cpu" => json!(pick(rng, &[[0u64, 1], [1, 2], [5, 1], [50, 1], [100, 1], [201, 2]])),
            "rt" => json!([*pick(rng, &[0u64, 1, 5, 10, 50, 100, 101]), *pick(rng, &[1u64, 2])]),
            "conc" => json!([rng.gen_range(0..=4u64), 1]),
            _ => json!([rng.gen_range(0..=6u64), *pick(rng, &[1u64, 2])]),
        };
        rules.push(json!({"id": format!("s{}", k + 1), "metric": metric, "thr": thr,
            "strat": if rng.gen_bool(0.5) { "bbr" } else { "none" }}));
    }
    evs.push(json!({"e": "load", "fam": "sys", "op": "all", "t": t, "rules": rules}));
    let mut open: Vec<u64> = Vec::new();
    let mut id = 0;
    for _ in 0..len {
        t += match rng.gen_range(0..12) {
            0..=3 => 0,
            4 => 1,
            5 => 5,
            6 => 50,
            7 => 100,
            8 => 500 - (t % 500),
            9 => 500,
            10 => rng.gen_range(0..=1000),
            _ => rng.gen_range(0..=3000),
        };
        match rng.gen_range(0..20) {
            0 | 1 => evs.push(json!({"e": "sysload", "t": t, "v": pick(rng, &dy)})),
            2 | 3 => evs.push(json!({"e": "syscpu", "t": t, "v": pick(rng, &dy)})),
            4 => evs.push(json!({"e": "adv", "t": t})),
            5..=11 if !open.is_empty() => {
                let i = rng.gen_range(0..open.len());
                evs.push(json!({"e": "exit", "id": open.remove(i), "t": t, "err": rng.gen_range(0..4) == 0}));
            }
            _ => {
                id += 1;
                open.push(id);
                let res = *pick(rng, &["r1", "r2"]);
                evs.push(json!({"e": "enter", "id": id, "res": res, "n": rng.gen_range(1..=2u64), "in": rng.gen_range(0..5) != 0, "t": t}));
            }
        }
    }
    for i in open {
        t += rng.gen_range(0..100);
        evs.push(json!({"e": "exit", "id": i, "t": t}));
    }
    evs
}

/// C10: random operation sequences on one rule family over a pool of valid, invalid and
/// duplicate-but-differently-identified rules; flow and isolation are probed for enforcement.
pub fn c10(rng: &mut impl Rng, len: usize) -> Vec<Value> {
    let fam = *pick(rng, &["flow", "iso", "hot", "cb", "sys"]);
    let ress = ["r1", "r2", "r3"];
    let mut pool: Vec<Value> = Vec::new();
    for k in 0..10u64 {
        let res = if k == 9 { "" } else { *pick(rng, &ress) };
        let id = format!("{}{}", &fam[..1], k + 1);
        let r = match fam {
            "flow" => json!({"id": id, "res": res, "ref": "", "rel": "current", "calc": "direct", "ctl": "reject",
                "thr": [if k == 8 { -1 } else { rng.gen_range(0..=4i64) }, 1], "warm": 0, "cold": 0, "maxq": 0, "I": 0}),
            "iso" => json!({"id": id, "res": res, "thr": if k == 8 { 0 } else { rng.gen_range(1..=4u64) }}),
            "hot" => json!({"id": id, "res": res, "metric": if rng.gen_bool(0.5) { "conc" } else { "qps" }, "ctl": "reject",
                "idx": 0, "key": "", "thr": rng.gen_range(0..=3u64), "maxq": 0, "burst": rng.gen_range(0..=1u64),
                "dur": if k == 8 { 0 } else { rng.gen_range(1..=2u64) }, "cap": 0, "spec": {}}),
            "cb" => json!({"id": id, "res": res, "strat": *pick(rng, &["ecount", "eratio", "slow"]),
                "retry": if k == 8 { 0 } else { *pick(rng, &[500u64, 1000]) }, "minreq": rng.gen_range(0..=2u64),
                "I": 1000, "nb": 1, "maxrt": 0, "thr": [rng.gen_range(0..=1u64), 1]}),
            _ => {
                let metric = *pick(rng, &["load", "rt", "conc", "qps", "cpu"]);
                let thr = if k == 8 { json!([-1, 1]) } else if metric == "load" { json!([rng.gen_range(0..=4u64), 4]) } else { json!([rng.gen_range(0..=5u64), 1]) };
                json!({"id": id, "metric": metric, "thr": thr, "strat": *pick(rng, &["none", "bbr"])})
            }
        };
        // hot: slow-only field equality nuance is avoided (all reject); cb: maxrt fixed
        pool.push(r);
    }
    // duplicates under another id
    for k in 0..3 {
        let mut d = pool[k].clone();
        d["id"] = json!(format!("{}d{}", &fam[..1], k + 1));
        pool.push(d);
    }
    let mut evs = vec![json!({"e": "reset", "t": 0, "obs": 0, "cfg": {"nt": 20, "It": 10000, "n": 2, "I": 1000}})];
    let mut t: u64 = 0;
    let key = |r: &Value| -> String { r.get("res").and_then(|x| x.as_str()).unwrap_or("").to_string() };
    for _ in 0..len {
        t += 1;
        let op = rng.gen_range(0..12);
        // now and then an earlier operation is issued again as it was (a rule set given again after
        // other operations; an empty per-resource load of a resource loaded before)
        if op >= 10 {
            let loads: Vec<Value> = evs.iter().filter(|e| e["e"] == "load").cloned().collect();
            if !loads.is_empty() {
                let mut again = pick(rng, &loads).clone();
                if op == 11 && again["op"] == "res" {
                    again["rules"] = json!([]);
                }
                again["t"] = json!(t);
                evs.push(again);
                if fam == "flow" || fam == "iso" {
                    t += 25_000;
                    evs.push(json!({"e": "probe", "fam": fam, "res": *pick(rng, &ress), "n": rng.gen_range(0..=5u64), "t": t}));
                }
                continue;
            }
        }
        let subset = |rng: &mut dyn rand::RngCore, pool: &Vec<Value>, only: Option<&str>| -> Vec<Value> {
            let mut v = Vec::new();
            for r in pool {
                if let Some(o) = only {
                    if key(r) != o {
                        continue;
                    }
                }
                if rand::Rng::gen_range(rng, 0..4) == 0 {
                    v.push(r.clone());
                }
            }
            v
        };
        match op {
            0..=2 => evs.push(json!({"e": "load", "fam": fam, "op": "all", "t": t, "rules": subset(rng, &pool, None)})),
            3 | 4 if fam != "sys" => {
                let res = if rng.gen_range(0..12) == 0 { "" } else { *pick(rng, &ress) };
                let rules = if res.is_empty() { vec![pool[0].clone()] } else { subset(rng, &pool, Some(res)) };
                evs.push(json!({"e": "load", "fam": fam, "op": "res", "res": res, "t": t, "rules": rules}));
            }
            5 | 6 | 7 => {
                let r = pick(rng, &pool).clone();
                evs.push(json!({"e": "load", "fam": fam, "op": "append", "t": t, "rules": [r]}));
            }
            8 if fam != "sys" => evs.push(json!({"e": "load", "fam": fam, "op": "clearres", "res": *pick(rng, &ress), "t": t, "rules": []})),
            9 => evs.push(json!({"e": "load", "fam": fam, "op": "clear", "t": t, "rules": []})),
            _ => evs.push(json!({"e": "load", "fam": fam, "op": "all", "t": t, "rules": subset(rng, &pool, None)})),
        }
        if fam == "flow" || fam == "iso" {
            // every statistic window is empty after 25 s; the probe leaves nothing in flight
            t += 25_000;
            evs.push(json!({"e": "probe", "fam": fam, "res": *pick(rng, &ress), "n": rng.gen_range(0..=5u64), "t": t}));
        }
    }
    evs
}

/// One field of a rule gets another value from a small domain (the same domains the generators of the
/// family draw from), so the rule stays inside the space its specification covers.
fn change_one_field(rng: &mut impl Rng, r: &mut Value, fam: &str, align: u64) {
    let keys: &[&str] = match fam {
        "flow" => &["thr", "I", "maxq"],
        "hot" => &["thr", "burst", "dur", "maxq"],
        "cb" => &["thr", "retry", "minreq", "I"],
        _ => &["thr"],
    };
    let present: Vec<&str> = keys.iter().cloned().filter(|k| r.get(*k).is_some()).collect();
    if present.is_empty() {
        return;
    }
    let k = *pick(rng, &present);
    let old = r[k].clone();
    for _ in 0..8 {
        let v = match k {
            "thr" => {
                if old.is_array() {
                    let d = old[1].as_i64().unwrap_or(1).max(1);
                    json!([(old[0].as_i64().unwrap_or(1) + rng.gen_range(1..=2i64) * d).max(0), d])
                } else {
                    json!(old.as_u64().unwrap_or(1) + rng.gen_range(1..=2u64))
                }
            }
            "I" => {
                // the epoch of the history is a multiple of `align`: only window lengths that divide it keep the
                // recorded (relative) times aligned with the real bucket boundaries
                let cands: Vec<u64> = (if fam == "cb" { vec![500u64, 1000, 1500, 2000] } else { vec![0u64, 500, 1000, 2000, 3000, 700] })
                    .into_iter()
                    .filter(|v| *v == 0 || align % *v == 0)
                    .collect();
                if cands.is_empty() { old.clone() } else { json!(*pick(rng, &cands)) }
            }
            "maxq" => json!(*pick(rng, &[0u64, 100, 500, 1000])),
            "burst" => json!(rng.gen_range(0..=3u64)),
            "dur" => json!(rng.gen_range(1..=3u64)),
            "retry" => json!(*pick(rng, &[300u64, 500, 1000, 2000])),
            "minreq" => json!(rng.gen_range(0..=3u64)),
            _ => old.clone(),
        };
        if v != old {
            r[k] = v;
            return;
        }
    }
}

/// C11: take a history of one enforcement family and insert reloads at random points: the same
/// rules under regenerated ids, in another order, with an unrelated resource added / changed /
/// removed in the same call, through load-all or load-for-resource.
pub fn with_reloads(rng: &mut impl Rng, evs: Vec<Value>, fam: &str, res: &str) -> Vec<Value> {
    // the rules in force (last load of the family)
    let mut cur: Vec<Value> = Vec::new();
    let mut out = Vec::new();
    let mut k = 0;
    let align = evs.first().and_then(|e| e.get("align")).and_then(|x| x.as_u64()).unwrap_or(1000).max(1);
    for ev in evs {
        let is_load = ev["e"] == "load" && ev["fam"] == fam;
        if is_load {
            cur = ev["rules"].as_array().cloned().unwrap_or_default();
        }
        let t = ev["t"].clone();
        out.push(ev.clone());
        if !is_load && !cur.is_empty() && ev["e"] != "reset" && rng.gen_range(0..6) == 0 {
            k += 1;
            let mut rules: Vec<Value> = cur
                .iter()
                .map(|r| {
                    let mut r = r.clone();
                    r["id"] = json!(format!("{}~{}", r["id"].as_str().unwrap().split('~').next().unwrap(), k));
                    r
                })
                .collect();
            // "changed ones apply at once": now and then one field of one rule of the resource under
            // test gets another value (the rule is then a different rule; the others stay unchanged)
            if rng.gen_range(0..3) == 0 {
                let idxs: Vec<usize> = (0..rules.len()).filter(|i| rules[*i]["res"] == res).collect();
                if !idxs.is_empty() {
                    let i = *pick(rng, &idxs);
                    change_one_field(rng, &mut rules[i], fam, align);
                    // sometimes a second rule of the resource changes in the same call
                    if idxs.len() > 1 && rng.gen_bool(0.4) {
                        let j = *pick(rng, &idxs);
                        if j != i {
                            change_one_field(rng, &mut rules[j], fam, align);
                        }
                    }
                }
            }
            // another order
            if rules.len() > 1 && rng.gen_bool(0.5) {
                rules.reverse();
            }
            let mine: Vec<Value> = rules.iter().filter(|r| r["res"] == res).cloned().collect();
            let mut reload = if rng.gen_bool(0.5) && !mine.is_empty() {
                // per-resource replacement of the resource under test
                let others: Vec<Value> = rules.iter().filter(|r| r["res"] != res).cloned().collect();
                rules = mine.clone();
                rules.extend(others);
                json!({"e": "load", "fam": fam, "op": "res", "res": res, "t": t, "rules": mine})
            } else {
                // an unrelated resource comes, changes or goes in the same call
                rules.retain(|r| r["res"] != "rz");
                if rng.gen_bool(0.6) {
                    let mut z = cur[0].clone();
                    z["id"] = json!(format!("z~{}", k));
                    z["res"] = json!("rz");
                    if z.get("thr").map(|x| x.is_array()).unwrap_or(false) {
                        z["thr"] = json!([rng.gen_range(1..=5u64), 1]);
                    } else {
                        z["thr"] = json!(rng.gen_range(1..=5u64));
                    }
                    rules.push(z);
                }
                json!({"e": "load", "fam": fam, "op": "all", "t": t, "rules": rules})
            };
            if let Some(tn) = ev.get("tn") {
                reload["tn"] = tn.clone();
            }
            cur = rules;
            out.push(reload);
        }
    }
    out
}
