//! Seeded random history generators for the I->S direction (inputs only).
use rand::Rng;
use serde_json::{json, Value};

fn pick<'a, T>(rng: &mut impl Rng, xs: &'a [T]) -> &'a T {
    &xs[rng.gen_range(0..xs.len())]
}

/// time step biased towards bucket boundaries of length `l` and interval `iv`
pub fn step(rng: &mut impl Rng, t: u64, l: u64, iv: u64) -> u64 {
    match rng.gen_range(0..14) {
        0..=4 => 0,
        5 => 1,
        6 => l - (t % l),
        7 => (l - (t % l)).saturating_sub(1),
        8 => l,
        9 => iv - (t % iv),
        10 => iv,
        11 => rng.gen_range(0..=3 * iv),
        12 => rng.gen_range(0..=l),
        _ => rng.gen_range(0..=iv),
    }
}

/// C01: direct/reject flow rules on the default geometry.
pub fn c01(rng: &mut impl Rng, len: usize) -> Vec<Value> {
    let intervals: [u64; 12] = [0, 500, 1000, 1500, 2000, 2500, 5000, 10000, 250, 700, 20000, 3000];
    let thr: [[u64; 2]; 9] = [[0, 1], [1, 1], [3, 2], [2, 1], [5, 2], [3, 1], [7, 2], [5, 1], [10, 1]];
    let mut evs = vec![json!({"e": "reset", "t": rng.gen_range(0..20000u64), "obs": 0,
        "cfg": {"nt": 20, "It": 10000, "n": 2, "I": 1000}, "align": 2_100_000})];
    let mut t = evs[0]["t"].as_u64().unwrap();
    let nres = rng.gen_range(1..=2);
    let mut rules = Vec::new();
    let mut k = 0;
    for r in 0..nres {
        for _ in 0..rng.gen_range(1..=3) {
            k += 1;
            rules.push(json!({"id": format!("f{}", k), "res": format!("r{}", r + 1),
                "thr": pick(rng, &thr), "I": pick(rng, &intervals)}));
        }
    }
    let max_iv = rules.iter().map(|r| r["I"].as_u64().unwrap()).max().unwrap().max(1000);
    evs.push(json!({"e": "load", "fam": "flow", "op": "all", "t": t, "rules": rules}));
    let mut open: Vec<u64> = Vec::new();
    let mut id = 0;
    for _ in 0..len {
        let rule = pick(rng, &rules).clone();
        let iv = rule["I"].as_u64().unwrap();
        let l = if iv == 700 || iv == 250 || iv == 20000 { iv } else { 500 };
        let span = if rng.gen_bool(0.5) { iv.max(500) } else { max_iv };
        t += step(rng, t, l, span);
        match rng.gen_range(0..10) {
            0 => evs.push(json!({"e": "adv", "t": t})),
            1 | 2 if !open.is_empty() => {
                let i = rng.gen_range(0..open.len());
                evs.push(json!({"e": "exit", "id": open.remove(i), "t": t}));
            }
            _ => {
                id += 1;
                open.push(id); // exits of blocked entries are skipped by the executor
                evs.push(json!({"e": "enter", "id": id, "res": rule["res"], "n": rng.gen_range(0..=4u64), "t": t}));
            }
        }
    }
    evs
}
