"""Shared machinery for the /verif checks: TLC runs, trace validation, harness build, evidence.

Exit codes of a check: 0 held / 1 violation (with VIOLATION line) / 2 tool error.
"""
import json, os, re, shutil, subprocess, sys, time, hashlib

VERIF = os.path.dirname(os.path.dirname(os.path.abspath(__file__)))
SPECS = os.path.join(VERIF, "specs")
HARNESS = os.path.join(VERIF, "harness")
VH = os.path.join(HARNESS, "target", "debug", "vh")
TLA_CP = "/opt/veriftools/tla/tla2tools.jar:/opt/veriftools/tla/CommunityModules-deps.jar"


class ToolError(Exception):
    pass


class Ctx:
    """One check run: scratch dir, counters, evidence."""

    def __init__(self, prop, tier, seed):
        self.prop, self.tier, self.seed = prop, tier, seed
        self.t_start = time.time()
        self.work = os.path.join(VERIF, "work", "%s-%d" % (prop, os.getpid()))
        shutil.rmtree(self.work, ignore_errors=True)
        os.makedirs(os.path.join(self.work, "tmp"), exist_ok=True)
        os.makedirs(os.path.join(VERIF, "replays"), exist_ok=True)
        os.makedirs(os.path.join(VERIF, "evidence"), exist_ok=True)
        self.states = 0
        self.transitions = 0
        self.traces = 0            # histories of the real code validated by TLC
        self.events = 0            # trace events validated
        self.behaviours = 0        # TLC behaviours replayed into the code
        self.samples = []
        self.mc_runs = []
        self.violations = []       # (what, replay path)
        self.known = []            # known findings matched
        self.notes = {}
        self.assumptions = []
        self.nviol = 0

    def path(self, name):
        return os.path.join(self.work, name)

    def quick(self):
        return self.tier == "quick"

    def log(self, *a):
        print("[%s %6.1fs]" % (self.prop, time.time() - self.t_start), *a, flush=True)

    def cleanup(self):
        shutil.rmtree(self.work, ignore_errors=True)


# --------------------------------------------------------------------------- harness build
def build_harness(ctx, bins=("vh",)):
    """Rebuild the harness against /repo's current working tree (path dependency, hooks on)."""
    t = time.time()
    lock = os.path.join(HARNESS, "Cargo.lock")
    if not os.path.exists(lock):
        shutil.copy("/repo/Cargo.lock", lock)
    cmd = ["cargo", "build", "--offline"]
    for b in bins:
        cmd += ["-p", b]
    env = dict(os.environ, CARGO_NET_OFFLINE="true")
    p = subprocess.run(cmd, cwd=HARNESS, env=env, stdout=subprocess.PIPE, stderr=subprocess.STDOUT, text=True)
    if p.returncode != 0:
        errs = [l for l in p.stdout.splitlines() if l.startswith("error")]
        sys.stdout.write(p.stdout[-4000:])
        raise ToolError("harness build failed: %s" % (errs[:3],))
    ctx.notes["harness_build_s"] = round(time.time() - t, 1)
    ctx.log("harness built in %.1fs" % (time.time() - t))


def vh(ctx, args, timeout=1800, binary=None, env=None):
    """Run the harness; returns stdout. A crash of the harness itself is a tool error."""
    cmd = [binary or VH] + [str(a) for a in args]
    e = dict(os.environ)
    if env:
        e.update(env)
    try:
        p = subprocess.run(cmd, stdout=subprocess.PIPE, stderr=subprocess.PIPE, text=True, timeout=timeout, env=e)
    except subprocess.TimeoutExpired:
        raise ToolError("harness timed out: %s" % " ".join(cmd))
    if p.returncode != 0:
        raise ToolError("harness failed (%d): %s\n%s" % (p.returncode, " ".join(cmd), p.stderr[-2000:]))
    return p.stdout


# --------------------------------------------------------------------------- TLC
class TlcResult:
    def __init__(self, text, rc):
        self.text, self.rc = text, rc
        m = re.search(r"(\d[\d,]*) states generated, (\d[\d,]*) distinct states found", text)
        self.generated = int(m.group(1).replace(",", "")) if m else 0
        self.distinct = int(m.group(2).replace(",", "")) if m else 0
        m = re.search(r"depth of the complete state graph search is (\d+)", text)
        self.depth = int(m.group(1)) if m else 0
        self.completed = "Model checking completed" in text or "Finished in" in text
        self.inv_violated = re.findall(r"Invariant (\S+) is violated", text)
        self.prop_violated = "Temporal properties were violated" in text or "Action property" in text and "violated" in text
        self.error = ("Error:" in text) and not self.inv_violated
        self.replays = None

    def lines(self, tag):
        """Payloads of PrintT(<<tag, json>>) lines."""
        out = []
        pre = '<<"%s", "' % tag
        for l in self.text.splitlines():
            if l.startswith(pre) and l.endswith('">>'):
                body = l[len(pre):-3]
                out.append(body.replace('\\"', '"').replace("\\\\", "\\"))
        return out


def tlc(ctx, module, cfg, workers=8, timeout=900, env=None, extra=(), heap="8g", simulate=None, tag=None,
        deque=False, stack=False):
    """Run TLC on specs/<module>.tla with specs/<cfg>. Returns TlcResult."""
    tag = tag or cfg.replace(".cfg", "")
    meta = ctx.path("meta-" + tag)
    jopts = "-Djava.io.tmpdir=%s" % ctx.path("tmp")
    if deque:
        jopts += " -Dtlc2.tool.queue.IStateQueue=StateDeque"
    if stack:
        jopts += " -Xss1g"
    cmd = ["timeout", str(timeout), "java", "-XX:+UseParallelGC", "-Xmx" + heap, "-cp", TLA_CP, "tlc2.TLC",
           "-workers", str(workers), "-metadir", meta, "-cleanup", "-noGenerateSpecTE",
           "-config", os.path.join(SPECS, cfg)]
    if simulate:
        cmd += ["-simulate", simulate]
    cmd += list(extra) + [os.path.join(SPECS, module + ".tla")]
    e = dict(os.environ, JAVA_TOOL_OPTIONS=jopts)
    if env:
        e.update(env)
    t = time.time()
    p = subprocess.run(cmd, cwd=ctx.work, env=e, stdout=subprocess.PIPE, stderr=subprocess.STDOUT, text=True)
    shutil.rmtree(meta, ignore_errors=True)
    r = TlcResult(p.stdout, p.returncode)
    r.wall = time.time() - t
    if p.returncode == 124:
        raise ToolError("TLC timed out after %ds on %s/%s" % (timeout, module, cfg))
    if "Parsing or semantic analysis failed" in p.stdout or "ConfigFileException" in p.stdout:
        sys.stdout.write(p.stdout[-3000:])
        raise ToolError("TLC could not parse %s/%s" % (module, cfg))
    return r


def model_check(ctx, module, cfg, workers=8, timeout=900, goals=(), coverage=False, tag=None):
    """Exhaustive run; the invariants of the cfg must hold. Returns TlcResult.
    An invariant violation of the *model* is a tool-level finding (the design is wrong or the
    model is): reported as a tool error, never as a violation of the code."""
    extra = ["-coverage", "1"] if coverage else []
    r = tlc(ctx, module, cfg, workers=workers, timeout=timeout, extra=extra, tag=tag)
    if r.inv_violated or r.error or not r.completed:
        sys.stdout.write(r.text[-6000:])
        raise ToolError("model %s/%s: invariant %s violated or TLC error" % (module, cfg, r.inv_violated))
    ctx.states += r.distinct
    ctx.transitions += r.generated
    ctx.mc_runs.append({"module": module, "cfg": cfg, "distinct_states": r.distinct, "states_generated": r.generated,
                        "depth": r.depth, "wall_s": round(r.wall, 1)})
    ctx.log("MC %s/%s: %d distinct states, %d generated, depth %d, %.1fs" %
            (module, cfg, r.distinct, r.generated, r.depth, r.wall))
    return r


def apalache_inductive(ctx, module, indinv="IndInv", implied="Implied", cinit="ConstInit", init="Init",
                       indinit="IndInit", timeout=600, mutants=()):
    """Unbounded safety of a small integer specification with Apalache: Init => IndInv (length 0),
    IndInv /\\ Next => IndInv' (length 1 from IndInit) and IndInv => the stated bound (`implied`).
    `mutants` = (description, old text, new text, file) edits of a copy of the specification that must make
    the inductive step fail (the proof is sensitive to the arithmetic it is about).
    A failure is a finding about the specification, i.e. a tool error, never a violation of the code."""
    t0 = time.time()

    def run(tag, args, specdir):
        out = ctx.path("apa-" + tag)
        cmd = ["timeout", str(timeout), "apalache-mc", "check", "--out-dir=" + out, "--cinit=" + cinit] + args + \
              [os.path.join(specdir, module + ".tla")]
        p = subprocess.run(cmd, cwd=ctx.work, stdout=subprocess.PIPE, stderr=subprocess.STDOUT, text=True)
        shutil.rmtree(out, ignore_errors=True)
        if p.returncode == 124:
            raise ToolError("apalache timed out on %s (%s)" % (module, tag))
        ok = "The outcome is: NoError" in p.stdout
        err = "The outcome is: Error" in p.stdout
        if not ok and not err:
            sys.stdout.write(p.stdout[-3000:])
            raise ToolError("apalache failed on %s (%s)" % (module, tag))
        return ok

    steps = [("base", ["--init=" + init, "--inv=" + indinv, "--length=0"]),
             ("step", ["--init=" + indinit, "--inv=" + indinv, "--length=1"]),
             ("implied", ["--init=" + indinit, "--inv=" + implied, "--length=0"])]
    for tag, args in steps:
        if not run(tag, args, SPECS):
            raise ToolError("apalache: %s of the inductive argument of %s does not hold" % (tag, module))
    killed = []
    for i, (what, old, new, fname) in enumerate(mutants):
        d = ctx.path("apa-mut-%d" % i)
        os.makedirs(d, exist_ok=True)
        for f in os.listdir(SPECS):
            if f.endswith(".tla"):
                shutil.copy(os.path.join(SPECS, f), d)
        text = open(os.path.join(d, fname)).read()
        if old not in text:
            raise ToolError("apalache mutant %r: text to replace not found in %s" % (what, fname))
        open(os.path.join(d, fname), "w").write(text.replace(old, new, 1))
        if run("mut%d" % i, steps[1][1], d):
            raise ToolError("apalache: the inductive step of %s still holds for the mutant %r (vacuous proof)" %
                            (module, what))
        killed.append(what)
        shutil.rmtree(d, ignore_errors=True)
    rec = {"module": module, "tool": "apalache-mc 0.58.0", "method": "inductive invariant, unbounded parameters",
           "obligations": [s[0] for s in steps], "mutants_refuted": killed, "wall_s": round(time.time() - t0, 1)}
    ctx.notes.setdefault("inductive_proofs", []).append(rec)
    ctx.log("apalache %s: base, step, implied hold; %d mutant(s) refuted, %.1fs" % (module, len(killed), rec["wall_s"]))
    return rec


def check_goals(ctx, module, cfg, goals, workers=4, timeout=300):
    """Vacuity self-test: each goal is the NEGATION of a reachable situation stated as an invariant;
    TLC must find a counter-example for each."""
    base = open(os.path.join(SPECS, cfg)).read()
    res = {}
    for g in goals:
        name = "goal-%s-%s.cfg" % (cfg.replace(".cfg", ""), g)
        p = os.path.join(SPECS, name)
        txt = re.sub(r"^INVARIANTS?.*$", "", base, flags=re.M) + "\nINVARIANT %s\n" % g
        with open(ctx.path(name), "w") as f:
            f.write(txt)
        # TLC wants the cfg next to nothing in particular; pass absolute path
        r = tlc_abs(ctx, module, ctx.path(name), workers=workers, timeout=timeout, tag="goal-" + g)
        res[g] = g in r.inv_violated
        ctx.log("GOAL %s/%s: %s %s" % (module, cfg, g, "reached" if res[g] else "NOT reached"))
        if not res[g]:
            raise ToolError("reachability goal %s of %s was not reached (vacuous model?)" % (g, module))
    ctx.notes.setdefault("reachability_goals", {}).update(res)
    return res


def tlc_abs(ctx, module, cfgpath, workers=4, timeout=300, tag="x", env=None, extra=()):
    meta = ctx.path("meta-" + tag)
    jopts = "-Djava.io.tmpdir=%s" % ctx.path("tmp")
    cmd = ["timeout", str(timeout), "java", "-XX:+UseParallelGC", "-Xmx4g", "-cp", TLA_CP, "tlc2.TLC",
           "-workers", str(workers), "-metadir", meta, "-cleanup", "-noGenerateSpecTE", "-config", cfgpath] + list(extra) + [
           os.path.join(SPECS, module + ".tla")]
    e = dict(os.environ, JAVA_TOOL_OPTIONS=jopts)
    if env:
        e.update(env)
    p = subprocess.run(cmd, cwd=ctx.work, env=e, stdout=subprocess.PIPE, stderr=subprocess.STDOUT, text=True)
    shutil.rmtree(meta, ignore_errors=True)
    if p.returncode == 124:
        raise ToolError("TLC timed out on %s" % tag)
    return TlcResult(p.stdout, p.returncode)


def generate(ctx, module, cfg, out_path, workers=4, timeout=600, simulate=None, tag=None, seed=None, tagname="REPLAY",
             limit=None):
    """Run the behaviour generator; writes one behaviour (JSON array) per line. Returns count."""
    extra = []
    if seed is not None:
        extra = ["-seed", str(seed)]
    if simulate:
        m = re.search(r"GenDepth\s*=\s*(\d+)", open(os.path.join(SPECS, cfg)).read())
        if m:
            extra += ["-depth", str(int(m.group(1)) + 1)]
    r = tlc(ctx, module, cfg, workers=workers, timeout=timeout, simulate=simulate, tag=tag, extra=extra)
    beh = r.lines(tagname)
    if r.inv_violated or (r.error and not simulate):
        sys.stdout.write(r.text[-4000:])
        raise ToolError("generator %s/%s failed" % (module, cfg))
    seen = set()
    uniq = []
    for b in beh:
        h = hashlib.md5(b.encode()).digest()
        if h in seen:
            continue
        seen.add(h)
        uniq.append(b)
    if limit is not None and len(uniq) > limit:
        # an evenly spaced sample of the enumeration, not its first entries
        step = len(uniq) / float(limit)
        uniq = [uniq[int(i * step)] for i in range(limit)]
    with open(out_path, "a") as f:
        for b in uniq:
            f.write(b + "\n")
    n = len(uniq)
    if not simulate:
        ctx.states += r.distinct
        ctx.transitions += r.generated
    ctx.log("GEN %s/%s%s: %d behaviours, %.1fs" % (module, cfg, " (simulate)" if simulate else "", n, r.wall))
    return n


# --------------------------------------------------------------------------- trace validation
def split_histories(lines, is_reset):
    """Group trace lines into histories, each starting at a reset line."""
    hs, cur = [], []
    for ln in lines:
        if cur and is_reset(ln):
            hs.append(cur)
            cur = []
        cur.append(ln)
    if cur:
        hs.append(cur)
    return hs


def default_is_reset(line):
    return '"e":"reset"' in line


def validate_traces(ctx, module, cfg, trace_path, label, is_reset=default_is_reset, max_rejects=8, chunk=4000,
                    timeout=900, classify=None, parallel=4):
    """Validate the recorded histories in trace_path with the trace spec.  A rejected history is
    set aside (saved as a replay file) and the rest is validated again, so one rejection does not
    hide the others.  Returns the list of rejected histories (dicts)."""
    lines = [l.rstrip("\n") for l in open(trace_path) if l.strip()]
    hs = split_histories(lines, is_reset)
    rejected = []
    # chunks of histories of about `chunk` events
    chunks, cur, cnt = [], [], 0
    for h in hs:
        cur.append(h)
        cnt += len(h)
        if cnt >= chunk:
            chunks.append(cur)
            cur, cnt = [], 0
    if cur:
        chunks.append(cur)
    from concurrent.futures import ThreadPoolExecutor

    def run_chunk(ci_ch):
        ci, ch = ci_ch
        rej = []
        ch = list(ch)
        validated_h = validated_e = 0
        while ch and len(rej) < max_rejects:
            tf = ctx.path("%s-chunk%d.ndjson" % (label, ci))
            with open(tf, "w") as f:
                for h in ch:
                    f.write("\n".join(h) + "\n")
            r = tlc(ctx, module, cfg, workers=1, timeout=timeout, env={"TRACE": tf}, tag="%s-%d" % (label, ci),
                    deque=True, stack=True, heap="3g")
            total = sum(len(h) for h in ch)
            m = re.search(r'<<"TRACE_REJECTED", (\d+), (\d+)', r.text)
            if m is None or r.inv_violated:
                if r.inv_violated:
                    # a spec invariant failed in a state reached by the real trace
                    d = _diameter_from_invariant(r)
                    bad_idx = _history_of(ch, d)
                    rej.append({"history": ch[bad_idx], "at": d, "why": "invariant %s" % r.inv_violated[0]})
                    validated_h += bad_idx
                    validated_e += sum(len(h) for h in ch[:bad_idx])
                    ch = ch[bad_idx + 1:]
                    continue
                if r.error or "Model checking completed" not in r.text:
                    sys.stdout.write(r.text[-4000:])
                    raise ToolError("trace validation %s/%s failed to run" % (module, cfg))
                validated_h += len(ch)
                validated_e += total
                break
            d = int(m.group(1))
            bad_idx = _history_of(ch, d)
            rej.append({"history": ch[bad_idx], "at": d - sum(len(h) for h in ch[:bad_idx]), "why": "no spec step matches"})
            validated_h += bad_idx
            validated_e += sum(len(h) for h in ch[:bad_idx])
            ch = ch[bad_idx + 1:]
        return rej, validated_h, validated_e

    with ThreadPoolExecutor(max_workers=parallel) as ex:
        results = list(ex.map(run_chunk, enumerate(chunks)))
    for rej, vh_, ve_ in results:
        rejected += rej
        ctx.traces += vh_
        ctx.events += ve_
    ctx.log("TRACE %s/%s [%s]: %d histories / %d events, %d rejected" %
            (module, cfg, label, len(hs), len(lines), len(rejected)))
    return rejected


def _history_of(ch, d):
    """Index of the history containing (1-based) record d."""
    acc = 0
    for i, h in enumerate(ch):
        acc += len(h)
        if d <= acc:
            return i
    return len(ch) - 1


def _diameter_from_invariant(r):
    # the error trace printed by TLC has one "State k:" per state; the last k-1 = records consumed
    ks = re.findall(r"^State (\d+):", r.text, flags=re.M)
    return max(1, int(ks[-1]) - 1) if ks else 1


# --------------------------------------------------------------------------- findings, verdicts, evidence
def load_known(prop):
    p = os.path.join(VERIF, "known_findings.json")
    if not os.path.exists(p):
        return []
    data = json.load(open(p))
    return [k for k in data.get("findings", []) if k.get("property") == prop and k.get("status") == "known"]


def report_violation(ctx, what, history_lines, name=None):
    """Save a replay file and print the VIOLATION line."""
    ctx.nviol += 1
    if ctx.nviol > 10:          # enough replay files; keep counting
        ctx.violations.append({"what": what, "replay": None})
        return
    name = name or "%s-%s-%d.ndjson" % (ctx.prop, ctx.seed, ctx.nviol)
    path = os.path.join(VERIF, "replays", name)
    with open(path, "w") as f:
        f.write("\n".join(history_lines) + "\n")
    ctx.violations.append({"what": what, "replay": path})
    print("VIOLATION property=%s replay=%s" % (ctx.prop, path), flush=True)
    ctx.log("  violation: %s" % what)


def add_sample(ctx, kind, obj, limit=6):
    if sum(1 for s in ctx.samples if s.get("kind") == kind) < limit:
        ctx.samples.append({"kind": kind, "case": obj})


def write_evidence(ctx, level="model_checking", extra=None, rule=None):
    cov = {
        "states": max(ctx.states, 0),
        "transitions": max(ctx.transitions, 0),
        "traces_validated_against_impl": ctx.traces,
        "trace_events_validated": ctx.events,
        "spec_behaviours_replayed_into_impl": ctx.behaviours,
        "samples": ctx.samples[:12] or [{"kind": "none"}],
        "model_checking_runs": ctx.mc_runs,
        "checker_cmd": "tlc (tla2tools 1.8.0) via /verif/check",
        "known_findings_matched": ctx.known,
    }
    cov.update(ctx.notes)
    if extra:
        cov.update(extra)
    if rule:
        cov["rule"] = rule
    ev = {
        "property_id": ctx.prop,
        "tier": ctx.tier,
        "seed": int(ctx.seed),
        "level": level,
        "coverage": cov,
        "assumptions": ctx.assumptions,
        "wall_s": round(time.time() - ctx.t_start, 1),
        "violations": len(ctx.violations),
    }
    if ctx.violations:
        ev["coverage"]["violation_list"] = ctx.violations[:20]
    with open(os.path.join(VERIF, "evidence", ctx.prop + ".json"), "w") as f:
        json.dump(ev, f, indent=1)
    return ev


def first_lines(path, n):
    out = []
    with open(path) as f:
        for i, l in enumerate(f):
            if i >= n:
                break
            out.append(json.loads(l))
    return out


# --------------------------------------------------------------------------- the standard three-way pattern
def standard_run(ctx, *, mc=(), goals=None, gens=(), trace, replay_cmd="world-replay", drives=(), known_matcher=None,
                 is_reset=default_is_reset, sample_n=2):
    """(M) model-check each (module, cfg[, workers, timeout]); (S->I) generate behaviours with each
    (module, cfg, simulate|None, limit) and replay them with `vh <replay_cmd>`; (I->S) run each drive
    command; validate every recorded trace with trace=(module, cfg).  Rejected histories become
    violations unless the known-findings matcher claims them."""
    build_harness(ctx)
    for m in mc:
        module, cfg = m[0], m[1]
        model_check(ctx, module, cfg, workers=m[2] if len(m) > 2 else 8, timeout=m[3] if len(m) > 3 else 900)
    if goals:
        check_goals(ctx, goals[0], goals[1], goals[2])
    rejected = []
    if gens:
        beh = ctx.path("beh.jsonl")
        n = 0
        # the generators run side by side, each into its own file (concatenated in order afterwards)
        from concurrent.futures import ThreadPoolExecutor

        def one(gi_g):
            gi, g = gi_g
            module, cfg, sim, limit = g
            part = ctx.path("beh-%d.jsonl" % gi)
            return generate(ctx, module, cfg, part, workers=1 if sim else 3, simulate=sim, limit=limit,
                            seed=ctx.seed if sim else None, tag="gen%d" % gi)
        with ThreadPoolExecutor(max_workers=4) as ex:
            counts = list(ex.map(one, enumerate(gens)))
        n = sum(counts)
        with open(beh, "a") as f:
            for gi in range(len(gens)):
                part = ctx.path("beh-%d.jsonl" % gi)
                if os.path.exists(part):
                    f.write(open(part).read())
                    os.remove(part)
        ctx.behaviours += n
        vh(ctx, [replay_cmd, "--in", beh, "--out", ctx.path("replay.ndjson")])
        rejected += validate_traces(ctx, trace[0], trace[1], ctx.path("replay.ndjson"), "replay", is_reset=is_reset)
        for s in first_lines(ctx.path("replay.ndjson"), sample_n + 2)[2:]:
            add_sample(ctx, "event_of_replayed_spec_behaviour", s)
    for di, d in enumerate(drives):
        out = ctx.path("drive%d.ndjson" % di)
        vh(ctx, list(d) + ["--seed", ctx.seed, "--out", out])
        rejected += validate_traces(ctx, trace[0], trace[1], out, "drive%d" % di, is_reset=is_reset)
        for s in first_lines(out, sample_n + 2)[2:]:
            add_sample(ctx, "event_of_recorded_trace", s)
    for r in rejected:
        k = known_matcher(r) if known_matcher else None
        if k:
            if k not in ctx.known:
                ctx.known.append(k)
            continue
        bad = r["history"][r["at"] - 1] if 0 < r["at"] <= len(r["history"]) else ""
        report_violation(ctx, "%s at event %s: %s" % (r["why"], r["at"], bad[:300]), r["history"])
    return rejected


def strip_observations(evs, input_keys):
    """Keep only the input fields of recorded events (for --replay)."""
    return [{k: v for k, v in e.items() if k in input_keys} for e in evs]


def standard_replay(ctx, path, trace, input_keys, replay_cmd="world-replay", is_reset=default_is_reset):
    build_harness(ctx)
    evs = [json.loads(l) for l in open(path) if l.strip()]
    with open(ctx.path("in.jsonl"), "w") as f:
        f.write(json.dumps(strip_observations(evs, input_keys)) + "\n")
    vh(ctx, [replay_cmd, "--in", ctx.path("in.jsonl"), "--out", ctx.path("re.ndjson")])
    rej = validate_traces(ctx, trace[0], trace[1], ctx.path("re.ndjson"), "re", is_reset=is_reset)
    for r in rej:
        report_violation(ctx, r["why"], r["history"], name=os.path.basename(path) + ".again")
    if not rej:
        ctx.log("replayed history is accepted by the specification on this tree")


WORLD_INPUT_KEYS = {"e", "t", "tn", "cfg", "align", "obs", "fresh", "fam", "op", "res", "rules", "id", "n", "in", "args",
                    "att", "err", "v", "kind"}


def match_known(ctx, rej):
    """A rejected history is a known finding if the first unmatched event satisfies a listed matcher
    (all `match` key/values equal in that event).  Matchers live in known_findings.json only."""
    at = rej["at"]
    h = rej["history"]
    if not (0 < at <= len(h)):
        return None
    try:
        ev = json.loads(h[at - 1])
    except Exception:
        return None
    for k in load_known(ctx.prop):
        m = k.get("match", {})
        if m and all(ev.get(a) == b for a, b in m.items()):
            return k["what"]
    return None


def model_check_text(ctx, module, cfg_text, tag, workers=2, timeout=600, simulate=None):
    """Model-check with a generated configuration (parameter grids); simulate="num=N" explores random
    behaviours instead of all of them (recorded as non-exhaustive by the caller)."""
    path = ctx.path("gen-%s.cfg" % tag)
    with open(path, "w") as f:
        f.write(cfg_text)
    extra = ["-simulate", simulate[0], "-depth", str(simulate[1])] if simulate else []
    r = tlc_abs(ctx, module, path, workers=1 if simulate else workers, timeout=timeout, tag=tag, extra=extra)
    if simulate:
        m = re.search(r"(\d[\d,]*) states checked", r.text)
        r.generated = int(m.group(1).replace(",", "")) if m else 0
    if r.inv_violated or r.error or ("Model checking completed" not in r.text and not simulate):
        sys.stdout.write(r.text[-5000:])
        raise ToolError("model %s [%s]: invariant %s violated or TLC error" % (module, tag, r.inv_violated))
    ctx.states += r.distinct
    ctx.transitions += r.generated
    return r


def generate_text(ctx, module, cfg_text, tag, out_path, limit=None, workers=2, timeout=600, tagname="REPLAY"):
    path = ctx.path("gen-%s.cfg" % tag)
    with open(path, "w") as f:
        f.write(cfg_text)
    r = tlc_abs(ctx, module, path, workers=workers, timeout=timeout, tag=tag)
    if r.inv_violated or r.error:
        sys.stdout.write(r.text[-4000:])
        raise ToolError("generator %s [%s] failed" % (module, tag))
    beh = r.lines(tagname)
    n = 0
    with open(out_path, "a") as f:
        for b in beh:
            if limit is not None and n >= limit:
                break
            f.write(b + "\n")
            n += 1
    ctx.states += r.distinct
    ctx.transitions += r.generated
    return n


def check_goals_text(ctx, module, cfg_text, goals, workers=2, timeout=300):
    base = re.sub(r"^INVARIANTS?.*$", "", cfg_text, flags=re.M)
    for g in goals:
        path = ctx.path("goal-%s.cfg" % g)
        with open(path, "w") as f:
            f.write(base + "\nINVARIANT %s\n" % g)
        r = tlc_abs(ctx, module, path, workers=workers, timeout=timeout, tag="goal-" + g)
        ok = g in r.inv_violated
        ctx.log("GOAL %s: %s %s" % (module, g, "reached" if ok else "NOT reached"))
        ctx.notes.setdefault("reachability_goals", {})[g] = ok
        if not ok:
            raise ToolError("reachability goal %s of %s was not reached (vacuous model?)" % (g, module))


# --------------------------------------------------------------------------- scheduled executions (C14-C16)
IS_BEGIN = lambda l: '"e":"begin"' in l


def scheduled_run(ctx, cmd, trace, extra_args=(), timeout=3000):
    """Run a schedule-exploring driver (`vh <cmd>`), validate every distinct execution with TLC.
    A deadlock found by the scheduler on the real code is a violation whose replay is the schedule."""
    out = ctx.path(cmd + ".ndjson")
    txt = vh(ctx, [cmd, "--tier", ctx.tier, "--seed", ctx.seed, "--out", out] + list(extra_args), timeout=timeout)
    summ = json.loads([l for l in txt.splitlines() if l.startswith("{")][-1])["summary"]
    ctx.notes.setdefault("schedule_exploration", []).extend(summ)
    ctx.behaviours += sum(s["executions"] for s in summ)
    for s in summ:
        for v in s["verdicts"]:
            if v["kind"] == "stuck":
                raise ToolError("scheduler: %s" % v["msg"])
            k = None
            for kf in load_known(ctx.prop):
                m = kf.get("match", {})
                if m and m.get("scenario") == s["scenario"] and m.get("kind") == v["kind"]:
                    k = kf["what"]
            if k:
                if k not in ctx.known:
                    ctx.known.append(k)
                continue
            report_violation(ctx, "%s in scenario %s: %s" % (v["kind"], s["scenario"], v.get("waiting") or v.get("msg")),
                             [json.dumps({"e": "begin", "scn": s["scenario"], "sched": v["sched"], "verdict": v})])
    rej = validate_traces(ctx, trace[0], trace[1], out, cmd, is_reset=IS_BEGIN, max_rejects=20) if os.path.getsize(out) else []
    for s in first_lines(out, 6):
        add_sample(ctx, "event_of_scheduled_execution", s)
    for r in rej:
        k = match_known(ctx, r)
        if k:
            if k not in ctx.known:
                ctx.known.append(k)
            continue
        bad = r["history"][r["at"] - 1] if 0 < r["at"] <= len(r["history"]) else ""
        report_violation(ctx, "%s at event %s: %s" % (r["why"], r["at"], bad[:300]), r["history"])
    return summ


def scheduled_replay(ctx, cmd, trace, path):
    build_harness(ctx)
    first = json.loads(open(path).readline())
    scn = first.get("scn") or first.get("scenario")
    plan = ",".join(str(x) for x in first["sched"])
    out = ctx.path("re.ndjson")
    txt = vh(ctx, [cmd, "--scenario", scn, "--plan", plan, "--out", out])
    summ = json.loads([l for l in txt.splitlines() if l.startswith("{")][-1])["summary"]
    bad = False
    for s in summ:
        for v in s["verdicts"]:
            bad = True
            report_violation(ctx, "%s in scenario %s: %s" % (v["kind"], s["scenario"], v.get("waiting")),
                             [open(path).readline().strip()], name="again-" + os.path.basename(path))
    rej = validate_traces(ctx, trace[0], trace[1], out, "re", is_reset=IS_BEGIN) if os.path.getsize(out) else []
    for r in rej:
        bad = True
        report_violation(ctx, r["why"], r["history"], name="again-" + os.path.basename(path))
    if not bad:
        ctx.log("the replayed schedule is accepted by the specification on this tree")
