#!/usr/bin/env python3
"""Regenerates /verif/MANIFEST.json from the table below (single source of truth)."""
import json, os, subprocess
V = "/verif"
props = [json.loads(l) for l in open(V + "/properties.jsonl")]

CHECKS = {
 "C01": dict(
   text="TLC model-checks the abstract admission rule (tokens in the rule's bucket-aligned window + n <= threshold) on a scaled geometry; every behaviour of the bounded model (all rule kinds: default, shared, private windows; fractional thresholds; boundary instants) is replayed through flow::load_rules + EntryBuilder::build on the real code under a virtual clock, and seeded random histories on the default geometry are recorded; TLC validates every recorded decision (pass / flow block / culprit rule) against the specification",
   note="one request at a time; thresholds are small rationals (exact in f64); bounded depth for the exhaustive part; trusts TLC and the harness projection",
   technique="TLA+ spec FlowReject.tla; TLC model checking; TLC-generated behaviours replayed into the code; TLC trace validation of recorded executions",
   ref="DESIGN.md §6 C01"),
 "C02": dict(
   text="TLC checks exhaustively (bounded geometries/counts/time) that the ring mechanism refines the ghost-event definition of every window reading; every behaviour of a bounded model and seeded random histories over arbitrary geometries are executed on the real LeapArray/SlidingWindowMetric/ResourceNode under a virtual clock and every reading is validated by TLC against the specification; the complete small construction grid is validated too",
   note="trusts TLC, the JSON projection of readings (qps*J, avg*complete as integers), epoch alignment to the array interval; bounded scope for the exhaustive part",
   technique="TLA+ spec Stat.tla (ghost + ring refinement); TLC model checking; TLC trace validation of real executions in both directions",
   ref="DESIGN.md §6 C02"),
}
CHECKS["C04"] = dict(
   text="TLC model-checks the accounting rules of Entry.tla (in-flight count = open passed entries, pass xor block, completion with batch count and response time, inbound mirroring) over all interleavings of a bounded alphabet; TLC behaviours and seeded random histories with rules of every family producing blocks are executed through the global slot chain, and after every call the readings of every touched resource node and of the global inbound node (sums, in-flight, min/avg rt) are validated by TLC against the ghost-event oracle",
   note="sequential calls; decisions of foreign rule families are taken as observed; error events and throttling sleeps are outside the histories; bounded scope for the exhaustive part",
   technique="TLA+ spec Entry.tla; TLC model checking; TLC-generated behaviours replayed into the code; TLC trace validation of recorded executions",
   ref="DESIGN.md §6 C04")
CHECKS["C05"] = dict(
   text="TLC model-checks the cap invariants (in-flight <= T per resource and per parameter value) on Entry.tla; every decision of TLC-generated behaviours and of random histories with only isolation / hotspot-concurrency rules (positional, negative, keyed parameters, overrides, batches) is validated by TLC: admitted iff it fits, rejection typed isolation resp. hotspot and naming a rule that is exceeded; block type and rule come from the structured BlockError recorded on the real global chain",
   note="thresholds and batch counts >= 1; a batch on a per-value counter may weigh 1..n (either accepted); bounded scope for the exhaustive part",
   technique="TLA+ spec Entry.tla; TLC model checking; TLC-generated behaviours replayed into the code; TLC trace validation of recorded executions",
   ref="DESIGN.md §6 C05")
CHECKS["C06"] = dict(
   text="TLC model-checks the token-bucket specification (capacity q_v+b, lazy refill, per-value override, consultation order of several rules) with the bound admitted <= q+b+q*(t-first)/d as an invariant; TLC behaviours (gaps of exactly d and d+1 ms, bursts, batches, two values, overrides incl. 0) and random histories with 1-4 values, positional/keyed parameters and 1-2 rules are executed through EntryBuilder on the real code; TLC validates every decision and the reported rule, so cross-talk between values or a wrong refill shows as a rejected trace",
   note="reference = lazily refilled bucket as the property describes; sequential requests; values within capacity; bounded scope for the exhaustive part",
   technique="TLA+ spec HotspotQps.tla (arithmetic in TokenBucket.tla); TLC model checking; Apalache inductive invariant of the same arithmetic for unbounded parameters (TokenBucketInd.tla); TLC-generated behaviours replayed into the code; TLC trace validation of recorded executions",
   ref="DESIGN.md §6 C06, §13.6")
CHECKS["C07"] = dict(
   text="TLC model-checks Throttle.tla (flow throttling in ns as <<ms,sub>> pairs, hotspot throttling in ms per value): pass / queue / reject with bounded queueing; TLC behaviours with arrivals before/on/after the scheduled slot and random histories (rates 1..1000 per 100..10000 ms, max queueing 0..2000 ms, batches, bursts, 3 values) run through EntryBuilder::build under the virtual clock, where a sleep advances the clock by what the slot asked for; TLC validates each decision, the block type and that the caller was held at least until its scheduled instant; one wall-clock sleep binds the virtual sleep to the real one",
   note="virtual time; wait == max queueing time may go either way; 1 ns slack; bounded scope for the exhaustive part",
   technique="TLA+ spec Throttle.tla; TLC model checking; TLC-generated behaviours replayed into the code; TLC trace validation of recorded executions",
   ref="DESIGN.md §6 C07")
CHECKS["C03"] = dict(
   text="TLC model-checks Breaker.tla (three strategies, min request amount, thresholds on the boundary, 1-2 window buckets, retry shorter/longer than the window, one or two breakers, blocked probes, stale completions) with the invariants one-probe-per-phase, listener log is a path, statistics cleared on close; every behaviour of the bounded model and random histories are executed through circuitbreaker::load_rules, EntryBuilder::build, trace_error/exit and a registered StateChangeListener; TLC validates after every call the admission result, each breaker's state and retry instant and the exact listener records",
   note="sequential calls; stale completion in Half-Open may decide or not; order of several breakers as reported by the manager; bounded scope for the exhaustive part",
   technique="TLA+ spec Breaker.tla; TLC model checking; TLC-generated behaviours replayed into the code; TLC trace validation of recorded executions",
   ref="DESIGN.md §6 C03")
CHECKS["C08"] = dict(
   text="The exact integer model of the warm-up token bucket + reject check (WarmUp.tla, half-second granularity) is model-checked by TLC against the envelope clauses of the property (WarmEnv.tla: <= q per window, >= floor(q/c)-1 when saturated, cold start <= floor(q/c)+1, non-decreasing under saturation, >= q-1 after 2p+2 saturated seconds, cold again after 2p idle seconds) over a (q,c,p) grid and all demand profiles of the bounded model (random profiles for the largest parameters); TLC-generated demand profiles and random on/off profiles are expanded to single-token requests on 1..20 ms grids, run through flow::load_rules + EntryBuilder on the real code under the virtual clock, and TLC judges every recorded history against the envelope second by second",
   note="tolerance 1 token (calibrated by the refinement check); saturated = q offered in each half second; the exact trajectory is not asserted on the code, only the envelope (so a different but conforming warm-up algorithm is accepted)",
   technique="TLA+ specs WarmUp.tla / WarmEnv.tla; TLC refinement check over a parameter grid; TLC-generated profiles replayed into the code; TLC trace validation of recorded executions",
   ref="DESIGN.md §6 C08")
CHECKS["C09"] = dict(
   text="System rules are part of Entry.tla: TLC model-checks inbound/outbound histories with QPS, concurrency, RT, load and CPU rules (both strategies) and injected load/CPU readings; TLC behaviours and random histories run through system::load_rules + EntryBuilder with the observed QPS / concurrency / RT / best completion rate / min RT produced by real inbound traffic on the global inbound node; TLC validates every decision (rejected iff some rule trips: >= for QPS/concurrency/RT, > for load/CPU, BBR guard), the block type, that the reported rule trips and that its snapshot is its own observed value, and that outbound entries are never affected",
   note="sequential calls; dyadic load/CPU readings (exact in f32/f64); any tripping rule may be reported; bounded scope for the exhaustive part",
   technique="TLA+ spec Entry.tla (system part); TLC model checking; TLC-generated behaviours replayed into the code; TLC trace validation of recorded executions",
   ref="DESIGN.md §6 C09")
CHECKS["C10"] = dict(
   text="RuleManager.tla specifies, for the five families, what load-all / load-for-resource / append / clear must leave reported and enforced (given vs active rules, rule equality ignoring ids, validity per family, 'unchanged' for identical reloads, an append keeps every active rule); TLC model-checks it over a pool of valid, invalid and duplicate rules; every behaviour of the bounded model and long random operation sequences are executed on the real managers; after every call TLC validates the return value, get_rules and get_rules_of_resource and, for flow and isolation, an enforcement probe on an idle resource",
   note="rules handed to load_rules_of_resource carry that resource's name; multiplicity of a rule given under several ids is free; bounded scope for the exhaustive part",
   technique="TLA+ spec RuleManager.tla; TLC model checking; TLC-generated behaviours replayed into the code; TLC trace validation of recorded executions",
   ref="DESIGN.md §6 C10")
CHECKS["C13"] = dict(
   text="SlotChain.tla states the contract as a predicate over (chain shape, observed call log, build result, delivered error, exit log); TLC checks that every run of a reference chain over the whole bounded case space satisfies it, enumerates all chain shapes (0..2 slots of each kind, equal and distinct order values, every pass/wait/block assignment; 0..3 in thorough) which the harness builds from recording slots and runs through EntryBuilder::with_slot_chain + exit, plus random chains with up to 4 slots of each kind; TLC decides for each observed log whether it is an allowed one",
   note="ties in order value and the choice among several blocking errors are free; exit once",
   technique="TLA+ spec SlotChain.tla; TLC enumeration of the case space replayed into the code; TLC validation of the observed call logs",
   ref="DESIGN.md §6 C13")
CHECKS["C17"] = dict(
   category="fault_enumeration",
   text="The complete grid of (sample_count_total, interval_ms_total, sample_count, interval_ms) incl. zero, non-dividing and non-tiling values, given by entity and by YAML text, is run with one fresh process per case: initialise, touch one resource from the initialising thread and one from a thread spawned afterwards, read both nodes' geometry; TLC validates every case against Config.tla (accepted iff the default window can be served by the global array; accepted => geometry as configured on every thread; no panic)",
   note="finite grid enumerated completely; geometry read through the guarded accessor",
   technique="TLA+ spec Config.tla (acceptance predicate + geometry clause); exhaustive case enumeration on the real code; TLC validation of every case",
   ref="DESIGN.md §6 C17")
CHECKS["C20"] = dict(
   text="Tower.tla: admission by an isolation rule of threshold T, inner service called exactly once iff admitted, fallback / error for rejected requests, admission released when the inner call finishes with a response or an error; TLC model-checks it, all outcome sequences (ready/pending x ok/err) of length <= 5 x T x fallback x role are replayed over the real SentinelService with a scripted inner service polled by hand, plus random sequences with dropped futures; TLC validates inner-call counts, results and the in-flight counts of the resource and the inbound node after every request",
   note="a future dropped before completion is explored and reported only; middleware/tonic cannot be built offline",
   technique="TLA+ spec Tower.tla; TLC model checking; TLC-generated behaviours replayed into the code; TLC trace validation",
   ref="DESIGN.md §6 C20")
CHECKS["C11"] = dict(
   text="The enforcement specifications carry the run-time state per rule and define what a reload does to it: a rule equal to an old one (whatever its id, its position, the loading call or the fate of other resources) keeps its window / token buckets / pacing schedule / breaker state, a changed rule starts fresh or inherits and its new parameters decide the very next entry. TLC model-checks the flow model with reloads enabled at every point, replays every bounded behaviour with reloads into the real code, and validates random histories of the flow, hotspot, circuit-breaker and throttling drivers with reloads (same rules under regenerated ids, reordered, other resources added / changed / removed, and one field of one rule changed) inserted at random points: every later decision, breaker state and listener record must be what the state carried across the reload prescribes",
   note="continuity is asserted for rules equal under rule equality; a changed rule with a private window / buckets / schedule may inherit or start empty; warm-up continuity only through the C08 envelope; the rule named in a rejection is compared by id or by the description its controller was built from",
   technique="TLA+ specs FlowReject / HotspotQps / Breaker / Throttle with reload actions; TLC model checking; TLC-generated behaviours replayed into the code; TLC trace validation of recorded executions",
   ref="DESIGN.md §6 C11")
CHECKS["C12"] = dict(
   category="fault_enumeration",
   text="RuleSpace.tla defines the rule space of the five families (cross product of every enum-valued field with boundary numerics incl. negative, NaN, zero durations, empty names, Custom(_) strategies, a related resource that exists / never existed), the validity predicates, and what a case must look like; TLC enumerates the space (seeded samples of the two large families - 400 rules each in the quick tier, 12 000 in the thorough tier - and the complete circuit-breaker (thorough), isolation and system spaces) x every loading entry point on a fresh and on a populated resource; each case runs in worker processes against the real managers with a logger that formats every record, followed by nine entry shapes (no / short / long argument lists, attachments, batch 0 / 1 / 10^6, inbound, empty resource name) and a health probe of every manager; TLC validates every case: no panic anywhere, accepted rules reported active and enforceable, rejected ones refused or ignored, nothing poisoned afterwards",
   note="'does not hang' is decided for virtual time; a valid rule of a Custom(_) strategy without registered generator may or may not be reported; the flow space has 2.6 million rules and is always sampled",
   technique="TLA+ spec RuleSpace.tla (rule space, validity predicates, case predicate); TLC enumeration replayed as one implementation test per case; TLC validation of every observed case",
   ref="DESIGN.md §6 C12")
CHECKS["C19"] = dict(
   text="MetricLog.tla judges the writer's operation stream (file creations / removals, index entries, lines, in program order, observed through a guarded hook) and every search result: an item is owed iff its line and its second's index entry are complete, its file exists and it was written in a second after the writer was created; searches must return the owed items that match, in write order. TLC model-checks a mechanism model of the writer (roll by day / size, retention) and of the index-based search against that statement for every query window and line limit at every crash prefix of the stream, and refutes the design as originally found. TLC-generated write histories (size limits forcing roll-overs, day changes, retention 1..3) and random ones are executed on the real DefaultMetricLogWriter / DefaultMetricSearcher (one searcher per history, so its position cache is exercised); for prefixes of the recorded stream the directory a crash would have left is rebuilt and searched; TLC validates every result",
   note="crash points: every byte of the calls examined in the crash-all runs, operation boundaries + all positions inside index entries + sampled positions inside lines otherwise; one writer per directory, no restart; an error instead of an empty result is tolerated when nothing is owed",
   technique="TLA+ specs MetricLog.tla (Tier A) and MC_MetricLog.tla (writer + search mechanism, crash prefixes); TLC model checking; TLC-generated histories replayed into the code; TLC trace validation incl. crash states",
   ref="DESIGN.md §6 C19")
CHECKS["C14"] = dict(
   text="NodeStore.tla states the atomic outcome of concurrent build / exit calls on one resource (one shared node, in-flight = un-exited entries, pass / completion / response-time totals = sums over all threads within one bucket, never more across a roll-over). TLC model-checks the mechanism (get-or-create as separately locked steps, atomic counters) against it for all interleavings of 3 threads and refutes the design as found and a non-atomic decrement. On the real code, 2-3 real threads run under a deterministic scheduler driven by guarded std::sync shims: depth-first over all schedules with a bounded number of preemptions at every lock acquisition and atomic access of the statistics code (fresh and existing resource, inbound / outbound, held entries, a clock step placed anywhere, inside a bucket and across a roll-over), then randomised priority schedules; TLC validates every distinct execution",
   note="implementation-level exploration is bounded (preemption bound 2, thorough 3, plus random schedules); sequentially consistent atomics; no rule loaded",
   technique="TLA+ specs NodeStore.tla / MC_NodeStore.tla; TLC model checking of the mechanism; systematic schedule exploration of the real code (deterministic scheduler over sync shims); TLC trace validation of every execution",
   ref="DESIGN.md §6 C14, §13")
CHECKS["C15"] = dict(
   text="Locks.tla composes the lock programs of all manager operations - recorded from the current tree by running each operation alone under the sync shims - pairwise with std's Mutex / RwLock semantics (readers queue behind a waiting writer) and TLC explores every interleaving of every pair for a state in which no thread can move; candidates are handed to the deterministic scheduler. On the real code every pair of manager operations of each family (load-all, load-for-resource, empty load, append, clear, clear-for-resource, get) with a concurrent entry on the affected resource, cross-family pairs, two-step programs and state-change listeners that read the manager run as real threads under the scheduler (all schedules up to a preemption bound at every manager / breaker lock acquisition, then random); the scheduler decides dead-lock, panics are caught per call, and a health probe of every manager follows each execution; TLC validates every execution against ManagerConc.tla",
   note="model level is unbounded in interleavings but per-instance locks of different operations never conflict there; implementation level is bounded (preemption bound 1, thorough 2, plus random); custom generators calling back into the manager are not exercised",
   technique="TLA+ specs Locks.tla (extracted lock programs, all interleavings) and ManagerConc.tla; TLC model checking; systematic schedule exploration of the real code; TLC trace validation",
   ref="DESIGN.md §6 C15, §13")
CHECKS["C16"] = dict(
   text="BreakerConc.tla states the atomic machine on one execution: call starts / ends and the transition records of a registered listener (which runs inside the breaker's critical section) in the order they happened; the records must chain up to a path of the machine, Open -> Half-Open must be performed inside a request, not before the retry instant armed when the breaker (re)opened, and that request is the one admitted probe; a request is admitted only if the breaker was Closed at some instant of its call or it is the probe; the breaker opens only with enough failed completions and does open when enough have finished. TLC model-checks the mechanism (unlocked read, time-out test, guarded transition) for all interleavings and refutes the design without the re-check under the lock. On the real code 2-3 threads race around each transition (several tripping completions, several requests after the time-out, a failing probe re-opening while a request is on its way, a probe completion against a stale completion, a rolled-back probe) under the deterministic scheduler (all schedules up to a preemption bound at the breaker's synchronisation points, then random); TLC validates every distinct execution",
   note="bounded exploration (preemption bound 2, thorough 3, plus random); error-count strategy; sequentially consistent atomics",
   technique="TLA+ specs BreakerConc.tla / MC_BreakerConc.tla; TLC model checking of the mechanism; systematic schedule exploration of the real code; TLC trace validation of every execution",
   ref="DESIGN.md §6 C16, §13")
CHECKS["C18"] = dict(
   text="Codec.tla treats a rule's JSON document as the function field -> value and states what the datasource parser must deliver: the documented default for a dropped field, an error for a wrong-typed field, the same rule (field by field, and equal under rule equality, serialising to the same document again) for the untouched or re-ordered document, a serialisation error for Custom(_) strategies. TLC enumerates rules of the C12 rule space (sampled in the quick tier, complete for the small families; plus thresholds beyond 2^53 as named values) x document edits (every single field dropped, all fields dropped, one wrong-typed field at a time, reversed order); each case is serialised with serde_json, edited, parsed by the real datasource::rule_json_array_parser and projected back; TLC validates every case. Metric items with counters up to u64::MAX and names with separators, spaces and unicode go through to_string / from_string and TLC checks every field (the name altered only by the separator replacement)",
   note="byte-level truncation / corruption is outside the specification: driven by the harness with the trivial oracle 'error, never a panic' and reported separately; NaN has no JSON form; 'enforced identically' is concluded from field-wise equality",
   technique="TLA+ spec Codec.tla (documents as functions, defaults, case predicate); TLC enumeration of the case space replayed through the real parser; TLC validation of every observed case",
   ref="DESIGN.md §6 C18, §13")
NOT_APPLICABLE = {}

def main():
    hooks = subprocess.run(["git", "-C", "/repo", "log", "--format=%h %s"], capture_output=True, text=True).stdout.splitlines()
    hook_commits = [l.split()[0] for l in hooks if "verif hook" in l]
    m = {
     "version": 1,
     "setup_cmd": "cd /verif/harness && CARGO_NET_OFFLINE=true cargo build --offline && CARGO_NET_OFFLINE=true cargo build --offline -p vh --features ds --bin vh-ds",
     "hooks": {"guard": "--cfg flea1lt_sentinel_rust_verif",
               "enable": "rustflags in /verif/harness/.cargo/config.toml (--cfg flea1lt_sentinel_rust_verif); sentinel-core is a path dependency of the harness, so every check rebuilds /repo's working tree with the hooks on",
               "baseline_off_cmd": "cd /repo && cargo test --workspace --no-fail-fast --offline",
               "source_commits": hook_commits[::-1],
               "add_only": True},
     "engines": [
        {"name": "tlc", "path": "/verif/specs", "serves_properties": sorted(CHECKS), "kind_free_text": "TLA+ specifications checked by TLC: exhaustive bounded model checking, behaviour generation, trace validation"},
        {"name": "vh", "path": "/verif/harness", "serves_properties": sorted(CHECKS), "kind_free_text": "Rust harness linked against /repo (hooks on): replays TLC behaviours into the real code and records traces; contains no expected values"}],
     "checks": [], "notes": "see DESIGN.md; ./check <id> quick|thorough; known findings in known_findings.json",
     "not_applicable": []}
    for p in props:
        pid = p["id"]
        if pid in CHECKS:
            c = CHECKS[pid]
            m["checks"].append({
              "property_id": pid, "quick_cmd": "./check %s quick" % pid, "thorough_cmd": "./check %s thorough" % pid,
              "evidence_file": "/verif/evidence/%s.json" % pid, "replay_cmd_template": "./check %s --replay {path}" % pid,
              "engine": "tlc",
              "level_claimed": {"category": c.get("category", "model_checking"), "text": c["text"], "design_ref": c["ref"]},
              "level_note": c["note"], "technique": c["technique"]})
        else:
            m["not_applicable"].append({"property_id": pid, "reason": NOT_APPLICABLE.get(pid, "check not built yet (work in progress, see DESIGN.md §12 build order); nothing is claimed for it")})
    json.dump(m, open(V + "/MANIFEST.json", "w"), indent=1)

if __name__ == "__main__":
    main()
