"""debug helper: python3 lib/onepart.py <prop-driver> <TraceModule> [hist] [len] — drive + validate one part, print first rejection"""
import sys, os, json
sys.path.insert(0, os.path.dirname(os.path.abspath(__file__)))
import vlib
prop, mod = sys.argv[1], sys.argv[2]
hist = sys.argv[3] if len(sys.argv) > 3 else "200"
ln = sys.argv[4] if len(sys.argv) > 4 else "60"
seed = os.environ.get("VERIF_SEED", "1")
ctx = vlib.Ctx("DBG", "quick", int(seed))
out = ctx.path("d.ndjson")
vlib.vh(ctx, ["world-drive", "--prop", prop, "--seed", seed, "--hist", hist, "--len", ln, "--out", out])
rej = vlib.validate_traces(ctx, mod, mod + ".cfg", out, prop)
for r in rej[:3]:
    print("REJECT at", r["at"], r["why"])
    for i, l in enumerate(r["history"][:r["at"]]):
        e = json.loads(l); e.pop("msg", None)
        print(i + 1, json.dumps(e)[:int(os.environ.get("W", "400"))])
ctx.cleanup()
