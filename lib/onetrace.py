"""debug helper: python3 lib/onetrace.py <TraceModule> <trace.ndjson> — validate, print rejections compactly"""
import sys, os, json
sys.path.insert(0, os.path.dirname(os.path.abspath(__file__)))
import vlib
mod, path = sys.argv[1], sys.argv[2]
ctx = vlib.Ctx("DBG", "quick", 1)
rej = vlib.validate_traces(ctx, mod, mod + ".cfg", path, "t", max_rejects=int(os.environ.get("MAXREJ", "8")))
W = int(os.environ.get("W", "600"))
for r in rej[:int(os.environ.get("SHOW", "3"))]:
    print("REJECT at", r["at"], r["why"])
    lo = max(0, r["at"] - int(os.environ.get("CTX", "3")))
    for i, l in enumerate(r["history"][:r["at"]]):
        e = json.loads(l); e.pop("msg", None)
        if i >= lo or e.get("e") in ("reset", "write", "load"):
            print(i + 1, json.dumps(e)[:W])
ctx.cleanup()
