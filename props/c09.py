"""C09 — system protection rejects inbound traffic exactly when a system metric trips (Entry.tla, system part)."""
import vlib

TRACE = ("Trace_Entry", "Trace_Entry.cfg")


def run(ctx):
    q = ctx.quick()
    vlib.standard_run(
        ctx,
        mc=[("MC_Entry", "MC_Entry_sys.cfg", 8 if q else 14, 1500)],
        goals=("MC_Entry", "MC_Entry_sys.cfg", ["GoalSysBlocks", "GoalSysQps"]),
        gens=[("MC_Entry", "Gen_Entry_sys.cfg", None, 3000 if q else 60000),
              ("MC_Entry", "Gen_Entry_sys_sim.cfg", "num=%d" % (300 if q else 6000), 300 if q else 6000)],
        trace=TRACE,
        drives=[["world-drive", "--prop", "c09", "--hist", 300 if q else 6000, "--len", 50]],
        known_matcher=lambda r: vlib.match_known(ctx, r),
    )


def replay(ctx, path):
    vlib.standard_replay(ctx, path, TRACE, vlib.WORLD_INPUT_KEYS)


def evidence(ctx):
    ctx.assumptions += [
        "observed QPS / concurrency / RT / best completion rate / min RT are the readings of the global inbound node produced by the traffic of the history (not injected); load and CPU are injected through the guarded setters with dyadic values",
        "with several tripping rules any of them may be the one reported; its snapshot must be its own observed value",
        "one harness thread; histories start after a clock jump that expires the process-global inbound node",
    ]
    vlib.write_evidence(ctx)
