"""C19 — metric log: written items can be searched back; a torn tail loses one line (MetricLog.tla)."""
import vlib

TRACE = ("Trace_MetricLog", "Trace_MetricLog.cfg")
INPUT_KEYS = {"e", "t", "ms", "items", "maxfiles", "maxsize", "slash", "crash", "q"}


def run(ctx):
    q = ctx.quick()
    vlib.build_harness(ctx)
    # (M) writer mechanism + index-based search, every query at every crash prefix, against Tier A
    vlib.model_check(ctx, "MC_MetricLog", "MC_MetricLog.cfg" if q else "MC_MetricLog_thorough.cfg", workers=12 if q else 14,
                     timeout=1200 if q else 6000)
    vlib.check_goals(ctx, "MC_MetricLog", "MC_MetricLog_goals.cfg", ["GoalRolledBySize", "GoalRolledByDay", "GoalRemoved"])
    # the uncorrected designs must be refuted by TLC (binding of the search model; documents the defects found)
    for name in ("MC_MetricLog_old.cfg",):
        r = vlib.tlc(ctx, "MC_MetricLog", name, workers=4, timeout=900, tag=name)
        ok = "SearchRefines" in r.inv_violated
        ctx.notes.setdefault("refuted_designs", {})[name] = ok
        ctx.log("MC %s: %s" % (name, "refuted as expected" if ok else "NOT refuted"))
        if not ok:
            raise vlib.ToolError("%s: the uncorrected design was not refuted (search model vacuous?)" % name)
    rejected = []
    # (S->I) write histories of the bounded model replayed on the real writer / searcher (all queries, sampled crash points)
    beh = ctx.path("beh.jsonl")
    n = vlib.generate(ctx, "MC_MetricLog", "Gen_MetricLog.cfg", beh, workers=4, limit=150 if q else 20000, timeout=1500)
    n += vlib.generate(ctx, "MC_MetricLog", "Gen_MetricLog_sim.cfg", beh, workers=1, seed=ctx.seed,
                       simulate="num=%d" % (40 if q else 2000), limit=40 if q else 2000, tag="gensim")
    ctx.behaviours += n
    # the model's lines are 10 bytes, the real ones about 40: scale the size limits
    scale(beh)
    vlib.vh(ctx, ["mlog-replay", "--in", beh, "--scratch", ctx.path("scratch"), "--seed", ctx.seed, "--out", ctx.path("replay.ndjson")])
    rejected += vlib.validate_traces(ctx, TRACE[0], TRACE[1], ctx.path("replay.ndjson"), "replay", chunk=6000, parallel=6)
    for s in vlib.first_lines(ctx.path("replay.ndjson"), 4)[1:]:
        vlib.add_sample(ctx, "event_of_replayed_spec_behaviour", s)
    # (I->S) random histories; thorough: every byte of every call as crash point
    out = ctx.path("drive.ndjson")
    vlib.vh(ctx, ["mlog-drive", "--seed", ctx.seed, "--hist", 40 if q else 1500, "--len", 8, "--crash", "sample",
                  "--scratch", ctx.path("scratch2"), "--out", out])
    rejected += vlib.validate_traces(ctx, TRACE[0], TRACE[1], out, "drive", chunk=6000, parallel=6)
    out2 = ctx.path("drive-all.ndjson")
    vlib.vh(ctx, ["mlog-drive", "--seed", ctx.seed + 1000, "--hist", 6 if q else 200, "--len", 5, "--crash", "all",
                  "--scratch", ctx.path("scratch3"), "--out", out2])
    rejected += vlib.validate_traces(ctx, TRACE[0], TRACE[1], out2, "drive-all", chunk=8000, parallel=6)
    for s in vlib.first_lines(out, 4)[1:]:
        vlib.add_sample(ctx, "event_of_recorded_trace", s)
    for r in rejected:
        k = vlib.match_known(ctx, r)
        if k:
            if k not in ctx.known:
                ctx.known.append(k)
            continue
        bad = r["history"][r["at"] - 1] if 0 < r["at"] <= len(r["history"]) else ""
        # the replay file holds the inputs up to the rejected event
        vlib.report_violation(ctx, "%s at event %s: %s" % (r["why"], r["at"], bad[:300]),
                              [l for l in r["history"][:r["at"]] if '"e":"reset"' in l or '"e":"write"' in l] + [bad])


def scale(path):
    import json
    lines = []
    for l in open(path):
        evs = json.loads(l)
        for e in evs:
            if e.get("e") == "reset":
                e["maxsize"] = e["maxsize"] * 4 if e["maxsize"] < 1000 else 1000000
                e["crash"] = "sample"
            if e.get("e") == "write":
                e["q"] = "full" if e is evs[-1] else "few"
        lines.append(json.dumps(evs))
    with open(path, "w") as f:
        f.write("\n".join(lines) + "\n")


def replay(ctx, path):
    import json
    vlib.build_harness(ctx)
    evs = [json.loads(l) for l in open(path) if l.strip()]
    inp = [{k: v for k, v in e.items() if k in INPUT_KEYS} for e in evs if e.get("e") in ("reset", "write")]
    for e in inp:
        if e["e"] == "reset":
            e["crash"] = "all"
        else:
            e["q"] = "full"
    with open(ctx.path("in.jsonl"), "w") as f:
        f.write(json.dumps(inp) + "\n")
    vlib.vh(ctx, ["mlog-replay", "--in", ctx.path("in.jsonl"), "--scratch", ctx.path("scratch"), "--out", ctx.path("re.ndjson")])
    rej = vlib.validate_traces(ctx, TRACE[0], TRACE[1], ctx.path("re.ndjson"), "re")
    for r in rej:
        bad = r["history"][r["at"] - 1] if 0 < r["at"] <= len(r["history"]) else ""
        vlib.report_violation(ctx, r["why"] + ": " + bad[:300], r["history"][:r["at"]], name="again-" + __import__("os").path.basename(path))
    if not rej:
        ctx.log("replayed history is accepted by the specification on this tree")


def evidence(ctx):
    ctx.assumptions += [
        "one writer per directory, created once (no restart on an existing directory); seconds written are non-decreasing (older ones are ignored by the writer and nothing is owed for them)",
        "the operation stream (file creations/removals, index and line writes, in program order) is observed through the guarded hook; crash directories are rebuilt from its prefixes: every byte position inside the calls examined with --crash all, operation boundaries, all positions inside index entries and sampled positions inside lines otherwise",
        "a search may answer with an error instead of an empty result when nothing is owed; find_from may exceed the line limit only to complete the last second",
        "retention = the roll-over policy may remove only the oldest file and only when the limit is reached; which file a line goes to is taken from the observed stream, not prescribed",
    ]
    vlib.write_evidence(ctx)
