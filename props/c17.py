"""C17 — accepted configuration is usable and is the same for every thread (Config.tla)."""
import json
import vlib

TRACE = ("Trace_Config", "Trace_Config.cfg")
EVERY = lambda l: True


def run(ctx):
    q = ctx.quick()
    vlib.build_harness(ctx)
    counts = "0,1,2,4,7,20" if q else "0,1,2,3,4,7,20"
    intervals = "0,500,999,1000,2000,10000" if q else "0,500,999,1000,1500,2000,10000"
    # one fresh process per grid point and init path (entity / YAML text)
    vlib.vh(ctx, ["config-grid", "--counts", counts, "--intervals", intervals, "--out", ctx.path("grid.ndjson")], timeout=3000)
    lines = [l for l in open(ctx.path("grid.ndjson")) if l.strip()]
    ctx.behaviours += len(lines)
    ctx.states = max(ctx.states, len(lines))
    ctx.transitions = max(ctx.transitions, len(lines))
    rej = vlib.validate_traces(ctx, TRACE[0], TRACE[1], ctx.path("grid.ndjson"), "grid", is_reset=EVERY, chunk=3000,
                               max_rejects=4000)
    acc = sum(1 for l in lines if json.loads(l).get("ok"))
    ctx.notes["cases"] = len(lines)
    ctx.notes["accepted_configurations"] = acc
    ctx.notes["exhaustive"] = True
    for l in lines[:2] + [l for l in lines if json.loads(l).get("ok")][:2]:
        vlib.add_sample(ctx, "configuration_case", json.loads(l))
    seen = set()
    for r in rej:
        k = vlib.match_known(ctx, dict(r, at=1))
        if k:
            if k not in ctx.known:
                ctx.known.append(k)
            continue
        ev = json.loads(r["history"][0])
        key = (ev.get("ok"), str(ev.get("geo_other")) == str(ev.get("geo_main")), "panic" in ev)
        if key in seen and len(seen) > 0 and ctx.nviol >= 3:
            ctx.violations.append({"what": "same kind as above", "replay": None})
            continue
        seen.add(key)
        vlib.report_violation(ctx, "configuration case not allowed by the specification: %s" % r["history"][0][:300], r["history"])


def replay(ctx, path):
    vlib.build_harness(ctx)
    out = []
    for l in open(path):
        if not l.strip():
            continue
        c = json.loads(l)
        o = vlib.vh(ctx, ["config-case", "--nt", c["nt"], "--It", c["It"], "--n", c["n"], "--I", c["I"], "--mode", c["mode"]])
        out.append(o.strip())
    with open(ctx.path("re.ndjson"), "w") as f:
        f.write("\n".join(out) + "\n")
    for r in vlib.validate_traces(ctx, TRACE[0], TRACE[1], ctx.path("re.ndjson"), "re", is_reset=EVERY):
        vlib.report_violation(ctx, r["why"], r["history"])


def evidence(ctx):
    ctx.assumptions += [
        "geometry is read through the guarded accessor of a node's array and default window",
        "one fresh process per case; the second resource is first touched from a thread spawned after initialisation",
        "the case space (a finite grid) is enumerated completely; the specification is the acceptance predicate and the geometry clause",
    ]
    vlib.write_evidence(ctx, level="fault_enumeration", extra={
        "evaluations": ctx.notes.get("cases", 0),
        "distinct_nontrivial": ctx.notes.get("accepted_configurations", 0),
        "exhaustive": True},
        rule="the complete grid of (sample_count_total, interval_ms_total, sample_count, interval_ms) x {entity, YAML}, one fresh process per case; "
             "cases are distinct by construction; non-trivial = the configuration is accepted, so statistics nodes are really built from three threads and their geometry is read")
