"""C12 — valid rules are enforceable without panics; invalid input never poisons Sentinel (RuleSpace.tla)."""
import json
import vlib

TRACE = ("Trace_RuleSpace", "Trace_RuleSpace.cfg")
EVERY = lambda l: True
FAMS = ["flow", "iso", "hot", "cb", "sys"]
# size of the random sample of the rule space per family in the quick tier (0 = the whole space)
QUICK = {"flow": 400, "iso": 0, "hot": 400, "cb": 400, "sys": 0}
# the flow space has 2.6 million rules, the hotspot space 39 thousand: the thorough tier samples 12 000 of each
# (x 5 loading calls x 9 entry shapes) and enumerates the other three spaces (13 824 / 40 / 70 rules)
THOROUGH = {"flow": 12000, "iso": 0, "hot": 12000, "cb": 0, "sys": 0}


def run(ctx):
    q = ctx.quick()
    vlib.build_harness(ctx)
    cases = ctx.path("cases.jsonl")
    total = 0
    for f in FAMS:
        k = QUICK[f] if q else THOROUGH[f]
        cfg = "Gen_RuleSpace_%s_%d.cfg" % (f, k)
        n = vlib.generate(ctx, "MC_RuleSpace", cfg, cases, workers=4, timeout=3000, seed=ctx.seed, tag="space-" + f)
        total += n
    ctx.behaviours += total
    ctx.notes["cases"] = total
    ctx.notes["exhaustive_families"] = [f for f in FAMS if (QUICK if q else THOROUGH)[f] == 0]
    vlib.vh(ctx, ["space-run", "--in", cases, "--jobs", 12, "--out", ctx.path("cases.ndjson")], timeout=6000)
    rej = vlib.validate_traces(ctx, TRACE[0], TRACE[1], ctx.path("cases.ndjson"), "cases", is_reset=EVERY, chunk=2500,
                               max_rejects=100000, timeout=3000)
    for s in vlib.first_lines(ctx.path("cases.ndjson"), 3):
        vlib.add_sample(ctx, "rule_space_case", s)
    # distinct cases whose rule ended up listed by its manager (it was really loaded and then enforced by the nine entries)
    loaded = set()
    for l in open(ctx.path("cases.ndjson")):
        c = json.loads(l)
        rid = (c.get("rule") or {}).get("id")
        if rid and rid in ((c.get("after") or {}).get("all") or []):
            loaded.add(json.dumps([c.get("fam"), c.get("op"), c.get("populated"), c.get("res"), c.get("rule")], sort_keys=True))
    ctx.notes["cases_with_rule_loaded"] = len(loaded)
    # classify: one replay file per distinct failure signature, the rest is counted
    seen = {}
    for r in rej:
        c = json.loads(r["history"][0])
        k = vlib.match_known(ctx, dict(r, at=1))
        if k:
            if k not in ctx.known:
                ctx.known.append(k)
            continue
        sig = (c.get("fam"), c.get("op"), (c.get("panic") or c.get("panic_after") or "")[:60], c.get("health", "")[:40],
               tuple(i for i, e in enumerate(c.get("entries", [])) if e.get("r") not in ("pass", "block") or e.get("exit") != "ok"))
        seen[sig] = seen.get(sig, 0) + 1
        if seen[sig] == 1:
            vlib.report_violation(ctx, "case not allowed by the specification %s: %s" % (sig, r["history"][0][:300]), r["history"])
        else:
            ctx.violations.append({"what": "same signature %s" % (sig,), "replay": None})
    ctx.notes["failure_signatures"] = {str(k): v for k, v in seen.items()}


def replay(ctx, path):
    vlib.build_harness(ctx)
    cases = [json.loads(l) for l in open(path) if l.strip()]
    keep = {"fam", "op", "res", "rule", "populated"}
    with open(ctx.path("in.jsonl"), "w") as f:
        for c in cases:
            f.write(json.dumps([{k: v for k, v in c.items() if k in keep}]) + "\n")
    vlib.vh(ctx, ["space-run", "--in", ctx.path("in.jsonl"), "--jobs", 1, "--out", ctx.path("re.ndjson")])
    for r in vlib.validate_traces(ctx, TRACE[0], TRACE[1], ctx.path("re.ndjson"), "re", is_reset=EVERY):
        vlib.report_violation(ctx, r["why"], r["history"])


def evidence(ctx):
    ctx.assumptions += [
        "a logger that formats every record is installed (what a user with logger_env gets), so Display/Debug impls used in log statements run",
        "'does not hang' is decided for virtual time only (throttling waits cost nothing); workers are separate processes so a poisoned manager does not spoil other cases",
        "a valid rule whose Custom(_) strategy has no registered generator need not become active, but must not panic",
        "NaN / infinities are the rationals with denominator 0; 'no panic' itself is an observation, the specification contributes the case space, the accepted/rejected dichotomy and what must be reported after loading",
    ]
    vlib.write_evidence(ctx, level="fault_enumeration", extra={
        "evaluations": ctx.notes.get("cases", 0),
        "distinct_nontrivial": ctx.notes.get("cases_with_rule_loaded", 0),
        "exhaustive": False},
        rule="cases = (family, rule of the TLA+ rule space, loading call on a fresh or populated resource), enumerated by TLC (complete for the small "
             "families, seeded random subsets of the large ones), each followed by nine entry shapes and a health probe of every manager; distinct by "
             "construction; non-trivial = the rule was accepted and is reported active afterwards, so the entries really ran against it")
