"""C13 — slot chain contract: ordered run, block iff a check blocked, one notification (SlotChain.tla)."""
import vlib

TRACE = ("Trace_SlotChain", "Trace_SlotChain.cfg")
EVERY = lambda l: True   # each record is a self-contained case


def run(ctx):
    q = ctx.quick()
    vlib.build_harness(ctx)
    # (M) the contract accepts every run of a reference chain over the whole case space
    vlib.model_check(ctx, "MC_SlotChain", "MC_SlotChain.cfg", workers=8, timeout=1500)
    # (S->I) every chain shape of the bounded space, executed on the real SlotChain / EntryBuilder
    beh = ctx.path("beh.jsonl")
    n = vlib.generate(ctx, "MC_SlotChain", "Gen_SlotChain.cfg" if q else "Gen_SlotChain_thorough.cfg", beh, workers=4,
                      limit=None, timeout=1500)
    ctx.behaviours += n
    vlib.vh(ctx, ["chain-replay", "--in", beh, "--out", ctx.path("replay.ndjson")])
    rej = vlib.validate_traces(ctx, TRACE[0], TRACE[1], ctx.path("replay.ndjson"), "replay", is_reset=EVERY, chunk=8000)
    # (I->S) random chains with up to 4 slots of each kind and wide order values
    vlib.vh(ctx, ["chain-drive", "--seed", ctx.seed, "--hist", 3000 if q else 100000, "--out", ctx.path("drive.ndjson")])
    rej += vlib.validate_traces(ctx, TRACE[0], TRACE[1], ctx.path("drive.ndjson"), "drive", is_reset=EVERY, chunk=8000)
    for s in vlib.first_lines(ctx.path("drive.ndjson"), 3):
        vlib.add_sample(ctx, "chain_case_with_observed_call_log", s)
    for r in rej:
        vlib.report_violation(ctx, "observed call log is not one the contract allows: %s" % r["history"][0][:300], r["history"])


def replay(ctx, path):
    import json
    vlib.build_harness(ctx)
    cases = [json.loads(l) for l in open(path) if l.strip()]
    for c in cases:
        for k in ("log", "build", "err", "exitlog", "panic"):
            c.pop(k, None)
    with open(ctx.path("in.jsonl"), "w") as f:
        f.write(json.dumps(cases) + "\n")
    vlib.vh(ctx, ["chain-replay", "--in", ctx.path("in.jsonl"), "--out", ctx.path("re.ndjson")])
    for r in vlib.validate_traces(ctx, TRACE[0], TRACE[1], ctx.path("re.ndjson"), "re", is_reset=EVERY):
        vlib.report_violation(ctx, r["why"], r["history"])


def evidence(ctx):
    ctx.assumptions += [
        "slots of equal order value may run in either order; with several blocking slots any of their errors may be delivered",
        "exit called once; the blocked entry's implicit exit is the one build() performs",
    ]
    vlib.write_evidence(ctx)
