"""C02 — sliding-window statistics report exactly the events inside the window (Stat.tla)."""
import json, os
import vlib


def run(ctx):
    q = ctx.quick()
    vlib.build_harness(ctx)
    # (M) ring refines ghost, bounded exhaustive
    vlib.model_check(ctx, "MC_Stat", "MC_Stat.cfg" if q else "MC_Stat_thorough.cfg", workers=8 if q else 14,
                     timeout=1800 if q else 6000)
    vlib.check_goals(ctx, "MC_Stat", "MC_Stat_goals.cfg", ["GoalSlotReused", "GoalAllExpired", "GoalBoundaryWide"])
    # (S->I) every behaviour of the bounded model replayed on the real arrays
    beh = ctx.path("beh.jsonl")
    n = vlib.generate(ctx, "MC_Stat", "Gen_Stat.cfg" if q else "Gen_Stat_thorough.cfg", beh, workers=4)
    n += vlib.generate(ctx, "MC_Stat", "Gen_Stat_sim.cfg", beh, workers=1, seed=ctx.seed,
                       simulate="num=%d" % (300 if q else 5000), tag="gensim", limit=300 if q else 5000)
    ctx.behaviours += n
    out = vlib.vh(ctx, ["stat-replay", "--in", beh, "--out", ctx.path("replay.ndjson")])
    rej = vlib.validate_traces(ctx, "Trace_Stat", "Trace_Stat.cfg", ctx.path("replay.ndjson"), "replay")
    # construction grid: one implementation test per (k, J, n, I)
    vlib.vh(ctx, ["stat-grid", "--out", ctx.path("grid.ndjson"), "--kmax", 6, "--jmax", 12 if q else 24])
    rej += validate_grid(ctx)
    # (I->S) random geometries / histories
    vlib.vh(ctx, ["stat-drive", "--seed", ctx.seed, "--hist", 300 if q else 10000, "--len", 60,
                  "--out", ctx.path("drive.ndjson")])
    rej += vlib.validate_traces(ctx, "Trace_Stat", "Trace_Stat.cfg", ctx.path("drive.ndjson"), "drive")
    for s in vlib.first_lines(ctx.path("replay.ndjson"), 3):
        vlib.add_sample(ctx, "replayed_behaviour_event", s)
    for s in vlib.first_lines(ctx.path("drive.ndjson"), 3):
        vlib.add_sample(ctx, "recorded_trace_event", s)
    for r in rej:
        vlib.report_violation(ctx, "%s at event %s of the history" % (r["why"], r["at"]), r["history"])


def validate_grid(ctx):
    """Grid events are stateless; each line is its own 'history'."""
    return vlib.validate_traces(ctx, "Trace_Stat", "Trace_Stat.cfg", ctx.path("grid.ndjson"), "grid",
                                is_reset=lambda l: True, chunk=20000, max_rejects=5)


def replay(ctx, path):
    """Re-execute the inputs of a saved history on the current tree and validate again."""
    vlib.build_harness(ctx)
    evs = [json.loads(l) for l in open(path) if l.strip()]
    for e in evs:
        for k in ("obs", "raw", "ok", "panic"):
            e.pop(k, None)
        if e.get("e") == "reset":
            for w in e.get("wins", []):
                w.pop("ok", None)
    with open(ctx.path("in.jsonl"), "w") as f:
        f.write(json.dumps(evs) + "\n")
    vlib.vh(ctx, ["stat-replay", "--in", ctx.path("in.jsonl"), "--out", ctx.path("re.ndjson")])
    stateless = evs and evs[0].get("e") in ("newarr", "newwin")
    rej = vlib.validate_traces(ctx, "Trace_Stat", "Trace_Stat.cfg", ctx.path("re.ndjson"), "re",
                               is_reset=(lambda l: True) if stateless else vlib.default_is_reset)
    for r in rej:
        vlib.report_violation(ctx, r["why"], r["history"], name=os.path.basename(path) + ".again")


def evidence(ctx):
    ctx.assumptions += [
        "times are integer ms relative to an epoch that is a multiple of the array interval",
        "non-decreasing timestamps (the property's quantifier)",
        "TLC 32-bit integers: counters kept below 1e9",
        "qps/avg readings are compared through exact integer projections (qps*J, avg*complete)",
    ]
    vlib.write_evidence(ctx)
