"""C06 — hotspot QPS limiting is a per-parameter token bucket with no cross-talk (HotspotQps.tla)."""
import vlib

TRACE = ("Trace_HotspotQps", "Trace_HotspotQps.cfg")


def run(ctx):
    q = ctx.quick()
    vlib.standard_run(
        ctx,
        mc=[("MC_HotspotQps", "MC_HotspotQps.cfg" if q else "MC_HotspotQps_thorough.cfg", 8 if q else 14, 1800)],
        goals=("MC_HotspotQps", "MC_HotspotQps.cfg", ["GoalRefill", "GoalTwoValues", "GoalExhausted"]),
        gens=[("MC_HotspotQps", "Gen_HotspotQps.cfg", None, 3000 if q else None),
              ("MC_HotspotQps", "Gen_HotspotQps_sim.cfg", "num=%d" % (300 if q else 6000), 300 if q else 6000)],
        trace=TRACE,
        drives=[["world-drive", "--prop", "c06", "--hist", 250 if q else 5000, "--len", 50]],
        known_matcher=lambda r: vlib.match_known(ctx, r),
    )


def replay(ctx, path):
    vlib.standard_replay(ctx, path, TRACE, vlib.WORLD_INPUT_KEYS)


def evidence(ctx):
    ctx.assumptions += [
        "reference = the lazily refilled bucket named by the property (refill only when the gap exceeds d)",
        "sequential requests; number of distinct values within the rule's capacity",
        "freedom from cross-talk is structural in the specification (a value's bucket is only touched by its own requests); it is decided on the code by trace validation of histories that interleave several values",
    ]
    vlib.write_evidence(ctx)
