"""C06 — hotspot QPS limiting is a per-parameter token bucket with no cross-talk (HotspotQps.tla)."""
import vlib

TRACE = ("Trace_HotspotQps", "Trace_HotspotQps.cfg")


APA_MUTANTS = [
    ("refill not capped at q + burst",
     "IF add + b.tokens > cap THEN cap - n ELSE add + b.tokens - n", "add + b.tokens - n", "TokenBucket.tla"),
    ("refill instant not advanced",
     "b EXCEPT !.tokens = new, !.last = t, !.admitted = @ + n", "b EXCEPT !.tokens = new, !.admitted = @ + n",
     "TokenBucket.tla"),
    ("refill rounded up", "add == (gap * q) \\div d", "add == (gap * q) \\div d + 1", "TokenBucket.tla"),
]


def run(ctx):
    q = ctx.quick()
    # unbounded (any q, burst, d, batch counts, instants): the bound of the property is an inductive
    # consequence of the very arithmetic (TokenBucket!DecideQ) that trace validation binds to the code
    vlib.apalache_inductive(ctx, "TokenBucketInd", mutants=APA_MUTANTS if not q else APA_MUTANTS[:1])
    vlib.standard_run(
        ctx,
        mc=[("MC_HotspotQps", "MC_HotspotQps.cfg" if q else "MC_HotspotQps_thorough.cfg", 8 if q else 14, 1800)],
        goals=("MC_HotspotQps", "MC_HotspotQps.cfg", ["GoalRefill", "GoalTwoValues", "GoalExhausted"]),
        gens=[("MC_HotspotQps", "Gen_HotspotQps.cfg", None, 3000 if q else None),
              ("MC_HotspotQps", "Gen_HotspotQps_sim.cfg", "num=%d" % (300 if q else 6000), 300 if q else 6000)],
        trace=TRACE,
        drives=[["world-drive", "--prop", "c06", "--hist", 250 if q else 5000, "--len", 50]],
        known_matcher=lambda r: vlib.match_known(ctx, r),
    )
    # extension beyond the listed property (which speaks about histories whose distinct values fit the rule's
    # capacity): least-recently-used replacement of the buckets once they do not.  Model-checked, replayed and
    # trace-validated like the rest; a mismatch is recorded in the evidence, it is not a violation of C06.
    try:
        vlib.model_check(ctx, "MC_HotspotQps", "MC_HotspotQps_lru.cfg" if q else "MC_HotspotQps_lru_thorough.cfg", workers=8, timeout=1800)
        vlib.check_goals(ctx, "MC_HotspotQps", "MC_HotspotQps_lru.cfg", ["GoalEvicted", "GoalEvictedBack"])
        lb = ctx.path("lru.jsonl")
        n = vlib.generate(ctx, "MC_HotspotQps", "Gen_HotspotQps_lru.cfg", lb, workers=1, simulate="num=%d" % (200 if q else 4000),
                          limit=200 if q else 4000, seed=ctx.seed, tag="lru")
        vlib.vh(ctx, ["world-replay", "--in", lb, "--out", ctx.path("lru-replay.ndjson")])
        rej = vlib.validate_traces(ctx, TRACE[0], TRACE[1], ctx.path("lru-replay.ndjson"), "lrureplay")
        out = ctx.path("lru-drive.ndjson")
        vlib.vh(ctx, ["world-drive", "--prop", "c06lru", "--hist", 150 if q else 3000, "--len", 60, "--seed", ctx.seed, "--out", out])
        rej += vlib.validate_traces(ctx, TRACE[0], TRACE[1], out, "lrudrive")
        ctx.behaviours += n
        ctx.notes["extension_lru_replacement"] = {
            "behaviours_replayed": n, "histories_recorded": 150 if q else 3000, "rejected": len(rej),
            "first_rejected": (rej[0]["history"][rej[0]["at"] - 1][:300] if rej and 0 < rej[0]["at"] <= len(rej[0]["history"]) else None)}
        ctx.log("LRU extension: %d rejected" % len(rej))
    except vlib.ToolError as e:
        ctx.notes["extension_lru_replacement"] = {"tool_error": str(e)}


def replay(ctx, path):
    vlib.standard_replay(ctx, path, TRACE, vlib.WORLD_INPUT_KEYS)


def evidence(ctx):
    ctx.assumptions += [
        "reference = the lazily refilled bucket named by the property (refill only when the gap exceeds d)",
        "the bound and the bucket's range are also discharged for unbounded q, burst, d, batch counts and instants as an inductive invariant of TokenBucket!DecideQ (Apalache); what binds that arithmetic to the code is trace validation",
        "sequential requests; number of distinct values within the rule's capacity",
        "freedom from cross-talk is structural in the specification (a value's bucket is only touched by its own requests); it is decided on the code by trace validation of histories that interleave several values",
    ]
    vlib.write_evidence(ctx)
