"""C03 — circuit breakers follow the Closed/Open/Half-Open state machine (Breaker.tla)."""
import vlib

TRACE = ("Trace_Breaker", "Trace_Breaker.cfg")


def run(ctx):
    q = ctx.quick()
    vlib.standard_run(
        ctx,
        mc=[("MC_Breaker", "MC_Breaker.cfg" if q else "MC_Breaker_thorough.cfg", 8 if q else 14, 1500 if q else 6000)],
        goals=("MC_Breaker", "MC_Breaker.cfg", ["GoalHalfOpenThenClosed", "GoalReopen", "GoalRollback", "GoalWindowExpiry"]),
        gens=[("MC_Breaker", "Gen_Breaker.cfg", None, 3000 if q else 60000),
              ("MC_Breaker", "Gen_Breaker_sim.cfg", "num=%d" % (300 if q else 6000), 300 if q else 6000)],
        trace=TRACE,
        drives=[["world-drive", "--prop", "c03", "--hist", 250 if q else 5000, "--len", 60]],
        known_matcher=lambda r: vlib.match_known(ctx, r),
    )


def replay(ctx, path):
    vlib.standard_replay(ctx, path, TRACE, vlib.WORLD_INPUT_KEYS)


def evidence(ctx):
    ctx.assumptions += [
        "sequential calls; the consultation order of several breakers is whatever the manager reports",
        "a stale completion during Half-Open may decide the phase or leave it to the probe",
        "breaker states are read through get_breakers_of_resource(..).current_state(), transitions through a registered StateChangeListener",
    ]
    vlib.write_evidence(ctx)
