"""C07 — throttling paces admissions, bounds queueing and really delays the caller (Throttle.tla)."""
import os, subprocess, time, json
import vlib

TRACE = ("Trace_Throttle", "Trace_Throttle.cfg")


def run(ctx):
    q = ctx.quick()
    vlib.standard_run(
        ctx,
        mc=[("MC_Throttle", "MC_Throttle_flow.cfg", 8 if q else 14, 900), ("MC_Throttle", "MC_Throttle_hot.cfg", 8 if q else 14, 900),
            ("MC_Throttle", "MC_Throttle_two.cfg", 8 if q else 14, 900)],
        goals=("MC_Throttle", "MC_Throttle_hot.cfg", ["GoalQueued", "GoalHotQueued"]),
        gens=[("MC_Throttle", "Gen_Throttle_flow.cfg", None, 2000 if q else 40000),
              ("MC_Throttle", "Gen_Throttle_hot.cfg", None, 2000 if q else 40000),
              ("MC_Throttle", "Gen_Throttle_two.cfg", None, 1500 if q else 30000),
              ("MC_Throttle", "Gen_Throttle_sim.cfg", "num=%d" % (300 if q else 6000), 300 if q else 6000)],
        trace=TRACE,
        drives=[["world-drive", "--prop", "c07", "--hist", 300 if q else 6000, "--len", 40]],
        known_matcher=lambda r: vlib.match_known(ctx, r),
    )
    # extension beyond the listed property: least-recently-used replacement of the per-value schedules once the
    # distinct values exceed the rule's capacity; a mismatch is recorded in the evidence, not a violation of C07
    try:
        vlib.model_check(ctx, "MC_Throttle", "MC_Throttle_lru.cfg", workers=8, timeout=900)
        vlib.check_goals(ctx, "MC_Throttle", "MC_Throttle_lru.cfg", ["GoalLruFull"])
        lb = ctx.path("lru.jsonl")
        n = vlib.generate(ctx, "MC_Throttle", "Gen_Throttle_lru.cfg", lb, workers=1, simulate="num=%d" % (200 if q else 4000),
                          limit=200 if q else 4000, seed=ctx.seed, tag="lru")
        vlib.vh(ctx, ["world-replay", "--in", lb, "--out", ctx.path("lru-replay.ndjson")])
        rej = vlib.validate_traces(ctx, TRACE[0], TRACE[1], ctx.path("lru-replay.ndjson"), "lrureplay")
        out = ctx.path("lru-drive.ndjson")
        vlib.vh(ctx, ["world-drive", "--prop", "c07lru", "--hist", 150 if q else 3000, "--len", 40, "--seed", ctx.seed, "--out", out])
        rej += vlib.validate_traces(ctx, TRACE[0], TRACE[1], out, "lrudrive")
        ctx.behaviours += n
        ctx.notes["extension_lru_replacement"] = {
            "behaviours_replayed": n, "histories_recorded": 150 if q else 3000, "rejected": len(rej),
            "first_rejected": (rej[0]["history"][rej[0]["at"] - 1][:300] if rej and 0 < rej[0]["at"] <= len(rej[0]["history"]) else None)}
        ctx.log("LRU extension: %d rejected" % len(rej))
    except vlib.ToolError as e:
        ctx.notes["extension_lru_replacement"] = {"tool_error": str(e)}
    # the virtual sleep stands for the real one: with the virtual clock off, sleep_for_ms really sleeps
    out = vlib.vh(ctx, ["real-sleep", "--ms", 20])
    took = int(out.strip().split("=")[1])
    ctx.notes["wall_clock_sleep_for_ms_20_took_us"] = took
    if took < 20000:
        vlib.report_violation(ctx, "sleep_for_ms(20) returned after %d us with the virtual clock off" % took,
                              [json.dumps({"e": "real-sleep", "ms": 20, "took_us": took})])


def replay(ctx, path):
    vlib.standard_replay(ctx, path, TRACE, vlib.WORLD_INPUT_KEYS)


def evidence(ctx):
    ctx.assumptions += [
        "virtual time: a virtual sleep advances the clock by exactly what the slot asked for; one wall-clock sleep per run binds it to the real function",
        "a wait exactly equal to the maximum queueing time may be queued or rejected; hotspot batch > threshold may be scheduled",
        "1 ns slack on the hold (floor of the f64 interval)",
        "one or two flow throttling rules (consulted one after the other, in an order TLC infers) and at most one hotspot throttling rule per resource",
    ]
    vlib.write_evidence(ctx)
