"""C04 — every entry is accounted exactly once: pass xor block, completion, in-flight (Entry.tla)."""
import vlib

TRACE = ("Trace_Entry", "Trace_Entry.cfg")


def run(ctx):
    q = ctx.quick()
    vlib.standard_run(
        ctx,
        mc=[("MC_Entry", "MC_Entry_iso.cfg", 8 if q else 14, 900)],
        goals=("MC_Entry", "MC_Entry_iso.cfg", ["GoalIsoBlocks", "GoalInboundMirrored"]),
        gens=[("MC_Entry", "Gen_Entry_iso.cfg", None, 3000 if q else None),
              ("MC_Entry", "Gen_Entry_iso_sim.cfg", "num=%d" % (300 if q else 6000), 300 if q else 6000)],
        trace=TRACE,
        drives=[["world-drive", "--prop", "c04", "--hist", 250 if q else 5000, "--len", 50]],
        known_matcher=lambda r: vlib.match_known(ctx, r),
    )


def replay(ctx, path):
    vlib.standard_replay(ctx, path, TRACE, vlib.WORLD_INPUT_KEYS)


def evidence(ctx):
    ctx.assumptions += [
        "each passed entry exited exactly once (the property's quantifier); one harness thread",
        "decisions of rule families other than isolation / hotspot concurrency are taken as observed; the accounting that must follow each decision is prescribed",
        "no throttling rules in these histories (a sleeping check moves the clock inside a call)",
        "error events are not asserted (nothing records them and the property does not mention them)",
    ]
    vlib.write_evidence(ctx)
