"""C08 — warm-up ramps from threshold/coldFactor up to threshold, and cools when idle (WarmUp.tla, WarmEnv.tla)."""
import itertools, random
from concurrent.futures import ThreadPoolExecutor
import vlib

TRACE = ("Trace_WarmUp", "Trace_WarmUp.cfg")
QS = [30, 31, 47, 60, 100, 250, 500]
CS = [0, 2, 3, 4, 6]
PS = [1, 2, 3, 5, 10, 20]


def cfg(q, c, p, gen_depth=0):
    horizon = 2 * ((2 * p + 2) + 4)
    return """SPECIFICATION MCSpec
CONSTANTS
  Q = %d
  C = %d
  P = %d
  Tau = 1
  MaxHalf = %d
  GenMode = %s
  GenDepth = %d
CONSTRAINT %s
INVARIANT %s
CHECK_DEADLOCK FALSE
""" % (q, c, p, horizon, "TRUE" if gen_depth else "FALSE", gen_depth,
       "GenBound" if gen_depth else "Bound", "PrintBehaviour" if gen_depth else "Envelope")


def run(ctx):
    q = ctx.quick()
    vlib.build_harness(ctx)
    grid = [(a, b, c) for a, b, c in itertools.product(QS, CS, PS) if a >= 10 * max(b, 1)]
    rnd = random.Random(ctx.seed)
    if q:
        fixed = [(100, 3, 5), (30, 0, 1), (500, 6, 3), (47, 2, 3), (60, 4, 2), (250, 6, 5)]
        grid = fixed + [(500, 6, 20)] + rnd.sample([g for g in grid if g not in fixed and g[2] <= 5], 8)
    # (M) the exact mechanism model refines the envelope for every demand profile of the bounded model
    def one(g):
        big = g[2] >= 10 or g[0] * g[2] > 1500          # too large to enumerate: random demand profiles
        return vlib.model_check_text(ctx, "MC_WarmUp", cfg(*g), "wu-%d-%d-%d" % g, workers=2, timeout=900,
                                     simulate=("num=3000", 2 * ((2 * g[2] + 2) + 4)) if big else None)
    with ThreadPoolExecutor(max_workers=6) as ex:
        res = list(ex.map(one, grid))
    ctx.mc_runs.append({"module": "MC_WarmUp", "configs": len(grid), "grid": "q,c,p in %s" % (grid[:6],),
                        "distinct_states": sum(r.distinct for r in res)})
    ctx.log("MC MC_WarmUp: %d (q,c,p) configurations, %d distinct states" % (len(grid), sum(r.distinct for r in res)))
    vlib.check_goals_text(ctx, "MC_WarmUp", cfg(30, 3, 1), ["GoalWarm", "GoalColdAgain"])
    # (S->I) bucket-level demand profiles of small configurations, expanded to single-token requests
    beh = ctx.path("beh.jsonl")
    n = 0
    for g in [(30, 3, 1), (31, 2, 1)] + ([] if q else [(47, 0, 2), (60, 6, 1)]):
        n += vlib.generate_text(ctx, "MC_WarmUp", cfg(*g, gen_depth=9 if q else 11), "gwu-%d-%d-%d" % g, beh,
                                limit=120 if q else 3000)
    ctx.behaviours += n
    ctx.log("GEN MC_WarmUp: %d demand profiles" % n)
    vlib.vh(ctx, ["warm-replay", "--in", beh, "--out", ctx.path("replay.ndjson")])
    rej = vlib.validate_traces(ctx, TRACE[0], TRACE[1], ctx.path("replay.ndjson"), "replay", chunk=30000)
    # (I->S) random on/off profiles on arrival grids of 1..20 ms
    vlib.vh(ctx, ["warm-drive", "--seed", ctx.seed, "--hist", 8 if q else 60, "--small", 1 if q else 0,
                  "--ramps", 9 if q else 45, "--out", ctx.path("drive.ndjson")], timeout=3000)
    rej += vlib.validate_traces(ctx, TRACE[0], TRACE[1], ctx.path("drive.ndjson"), "drive", chunk=60000, timeout=3000)
    for s in vlib.first_lines(ctx.path("drive.ndjson"), 4)[1:]:
        vlib.add_sample(ctx, "event_of_recorded_trace", s)
    for r in rej:
        bad = r["history"][r["at"] - 1] if 0 < r["at"] <= len(r["history"]) else ""
        vlib.report_violation(ctx, "%s at event %s: %s" % (r["why"], r["at"], bad[:300]), r["history"])


def replay(ctx, path):
    vlib.standard_replay(ctx, path, TRACE, vlib.WORLD_INPUT_KEYS)


def evidence(ctx):
    ctx.assumptions += [
        "'about q/c' is floor(q/c) +- 1 token (tolerance calibrated by the refinement check of the exact model against the envelope over the (q,c,p) grid)",
        "a second is saturated when at least q tokens are offered in each of its half-second buckets; single-token requests",
        "reject control on the default 1 s window; q >= 10*c",
    ]
    vlib.write_evidence(ctx)
