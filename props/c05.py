"""C05 — concurrency caps (isolation, hotspot concurrency) hold and are reported rightly (Entry.tla)."""
import vlib

TRACE = ("Trace_Entry", "Trace_Entry.cfg")


def run(ctx):
    q = ctx.quick()
    vlib.standard_run(
        ctx,
        mc=[("MC_Entry", "MC_Entry_iso.cfg", 8 if q else 14, 900), ("MC_Entry", "MC_Entry_hot.cfg", 8 if q else 14, 900)],
        goals=("MC_Entry", "MC_Entry_hot.cfg", ["GoalHotCounts"]),
        gens=[("MC_Entry", "Gen_Entry_iso.cfg", None, 2000 if q else None),
              ("MC_Entry", "Gen_Entry_hot.cfg", None, 2000 if q else None),
              ("MC_Entry", "Gen_Entry_iso_sim.cfg", "num=%d" % (200 if q else 4000), 200 if q else 4000),
              ("MC_Entry", "Gen_Entry_hot_sim.cfg", "num=%d" % (200 if q else 4000), 200 if q else 4000)],
        trace=TRACE,
        drives=[["world-drive", "--prop", "c05", "--hist", 200 if q else 4000, "--len", 50]],
        known_matcher=lambda r: vlib.match_known(ctx, r),
    )


def replay(ctx, path):
    vlib.standard_replay(ctx, path, TRACE, vlib.WORLD_INPUT_KEYS)


def evidence(ctx):
    ctx.assumptions += [
        "sequential requests; batch counts >= 1 and thresholds >= 1 (the property's quantifier)",
        "hotspot concurrency with a batch n > 1: admitted if inflight+n <= T, rejected if inflight+1 > T, either in between",
        "block type and triggering rule are read from the BlockError kept by the guarded recording slot of the global chain",
    ]
    vlib.write_evidence(ctx)
