"""C15 — concurrent rule updates and entries never deadlock, panic or poison a manager (Locks.tla, ManagerConc.tla)."""
import json, os, re
from concurrent.futures import ThreadPoolExecutor
import vlib

TRACE = ("Trace_ManagerConc", "Trace_ManagerConc.cfg")
LOCK_SITES = ("rule_manager.rs", "core/circuitbreaker/", "node_storage")


def lock_programs(ctx):
    """Run every manager operation alone under the sync shims and turn the recorded events into lock programs."""
    txt = vlib.vh(ctx, ["c15", "--programs", 1, "--out", ctx.path("p.ndjson")], timeout=600)
    progs = json.loads([l for l in txt.splitlines() if l.startswith("{")][-1])["programs"]
    out = []
    for p in progs:
        if p["verdict"] != "Completed":
            raise vlib.ToolError("operation %s alone did not complete: %s" % (p["op"], p["verdict"]))
        steps = []
        for e in p["events"]:
            site = e.get("site", "")
            if not any(s in site for s in LOCK_SITES):
                continue
            name = "%s@%s" % (site, e.get("obj"))
            if e["op"] in ("Lock", "Write"):
                steps.append({"k": "acq", "m": "W", "l": name})
            elif e["op"] == "Read":
                steps.append({"k": "acq", "m": "R", "l": name})
            elif e["op"] in ("Unlock", "UnlockRead"):
                steps.append({"k": "rel", "m": "W", "l": name})
        out.append({"op": p["op"], "steps": steps})
    return out


def run(ctx):
    q = ctx.quick()
    vlib.build_harness(ctx)
    # (M) lock programs extracted from the current tree, composed pairwise with std's lock semantics: all interleavings
    progs = lock_programs(ctx)
    ctx.notes["lock_programs"] = {p["op"]: len(p["steps"]) for p in progs}
    with open(ctx.path("progs.json"), "w") as f:
        json.dump(progs, f)
    excluded, candidates = [], []
    for _ in range(12):
        with open(ctx.path("excl.json"), "w") as f:
            json.dump(excluded, f)
        r = vlib.tlc(ctx, "Locks", "Locks.cfg", workers=8, timeout=900, tag="locks%d" % len(excluded),
                     env={"PROGS": ctx.path("progs.json"), "EXCLUDE": ctx.path("excl.json")})
        if "NoDeadlock" in r.inv_violated:
            m = re.findall(r"pair = <<(\d+), (\d+)>>", r.text)
            i, j = int(m[-1][0]), int(m[-1][1])
            candidates.append((progs[i - 1]["op"], progs[j - 1]["op"]))
            excluded.append([i, j])
            ctx.log("MC Locks: dead-lock candidate %s || %s" % candidates[-1])
            continue
        if r.error or not r.completed:
            print(r.text[-3000:])
            raise vlib.ToolError("Locks model failed to run")
        ctx.states += r.distinct
        ctx.transitions += r.generated
        ctx.mc_runs.append({"module": "Locks", "cfg": "Locks.cfg", "distinct_states": r.distinct, "states_generated": r.generated,
                            "pairs": len(progs) * (len(progs) + 1) // 2, "wall_s": round(r.wall, 1)})
        ctx.log("MC Locks: %d operations, all pairs, %d distinct states, no further dead-lock state" % (len(progs), r.distinct))
        break
    ctx.notes["model_deadlock_candidates"] = ["%s || %s" % c for c in candidates]
    # implementation level: the scenario list in parallel worker processes (a dead-lock ends a worker)
    nscn = 330 if q else 362
    jobs = 8
    step = (nscn + jobs - 1) // jobs
    outs = []

    def worker(k):
        out = ctx.path("c15-%d.ndjson" % k)
        t = vlib.vh(ctx, ["c15", "--tier", ctx.tier, "--seed", ctx.seed, "--from", k * step, "--to", (k + 1) * step, "--out", out],
                    timeout=3000 if q else 20000)
        return out, json.loads([l for l in t.splitlines() if l.startswith("{")][-1])["summary"]
    with ThreadPoolExecutor(max_workers=jobs) as ex:
        results = list(ex.map(worker, range(jobs)))
    # candidates of the model are explored with a higher preemption bound
    for a, b in candidates:
        out = ctx.path("c15-pair-%d.ndjson" % len(results))
        t = vlib.vh(ctx, ["c15", "--pair", "%s,%s" % (a, b), "--bound", 3, "--max", 5000, "--random", 200, "--out", out], timeout=1200)
        results.append((out, json.loads([l for l in t.splitlines() if l.startswith("{")][-1])["summary"]))
    merged = ctx.path("c15.ndjson")
    summ = []
    with open(merged, "w") as f:
        for out, s in results:
            summ += s
            if os.path.exists(out):
                f.write(open(out).read())
    ctx.notes["schedule_exploration"] = {"scenarios": len(summ), "executions": sum(s["executions"] for s in summ),
                                         "dfs_exhausted": sum(1 for s in summ if s["dfs_exhausted"]),
                                         "diverged": sum(s["diverged"] for s in summ)}
    ctx.behaviours += sum(s["executions"] for s in summ)
    reproduced = set()
    for s in summ:
        for v in s["verdicts"]:
            if v["kind"] == "stuck":
                raise vlib.ToolError("scheduler: %s" % v["msg"])
            reproduced.add(s["scenario"])
            k = None
            for kf in vlib.load_known(ctx.prop):
                m = kf.get("match", {})
                if m and m.get("scenario") == s["scenario"]:
                    k = kf["what"]
            if k:
                if k not in ctx.known:
                    ctx.known.append(k)
                continue
            vlib.report_violation(ctx, "dead-lock in scenario %s: %s" % (s["scenario"], v["waiting"]),
                                  [json.dumps({"e": "begin", "scn": s["scenario"], "sched": v["sched"], "waiting": v["waiting"]})])
    ctx.notes["model_candidates_not_reproduced"] = ["%s || %s" % c for c in candidates if ("pair:%s,%s" % c) not in reproduced]
    rej = vlib.validate_traces(ctx, TRACE[0], TRACE[1], merged, "c15", is_reset=vlib.IS_BEGIN, max_rejects=20, chunk=6000, parallel=6)
    for s in vlib.first_lines(merged, 5):
        vlib.add_sample(ctx, "event_of_scheduled_execution", s)
    for r in rej:
        first = json.loads(r["history"][0])
        if any(json.loads(l).get("e") == "deadlock" for l in r["history"]):
            continue        # already reported through the scheduler's verdict
        bad = r["history"][r["at"] - 1] if 0 < r["at"] <= len(r["history"]) else ""
        vlib.report_violation(ctx, "%s at event %s: %s" % (r["why"], r["at"], bad[:300]), r["history"])


def replay(ctx, path):
    vlib.scheduled_replay(ctx, "c15", TRACE, path)


def evidence(ctx):
    ctx.assumptions += [
        "model level: lock programs are recorded from single runs of each operation on the current tree and composed pairwise for ALL interleavings; locks are identified by construction site and address, so per-instance locks of different operations never conflict in the model; candidates are confirmed only by the scheduler on the real code",
        "implementation level: every pair of manager operations of each family (plus cross-family and two-step selections) with a concurrent entry on the affected resource, all schedules with at most 1 (thorough: 2) preemption at the lock acquisitions of the managers and breakers, then randomised priorities; call-backs: a state-change listener that reads the circuit-breaker manager",
        "readers queue behind a waiting writer (std's futex RwLock on Linux); a custom traffic-shaping generator that calls back into the manager is not exercised",
    ]
    vlib.write_evidence(ctx)
