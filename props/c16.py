"""C16 — circuit-breaker transitions are atomic under concurrency: one probe, one winner (BreakerConc.tla)."""
import vlib

TRACE = ("Trace_BreakerConc", "Trace_BreakerConc.cfg")


def run(ctx):
    q = ctx.quick()
    vlib.build_harness(ctx)
    # (M) the sequential machine and its invariants (one probe per phase, the listener log is a path) are
    # model-checked with C03; here the mechanism (unlocked state read, guarded transition under the state
    # mutex, retry stamp) is model-checked against the atomic statement in every interleaving
    vlib.model_check(ctx, "MC_BreakerConc", "MC_BreakerConc.cfg", workers=8, timeout=900)
    r = vlib.tlc(ctx, "MC_BreakerConc", "MC_BreakerConc_nocheck.cfg", workers=4, timeout=600, tag="nocheck")
    ok = bool(r.inv_violated)
    ctx.notes.setdefault("refuted_designs", {})["MC_BreakerConc_nocheck.cfg"] = ok
    ctx.log("MC MC_BreakerConc_nocheck.cfg: %s" % ("refuted as expected" if ok else "NOT refuted"))
    if not ok:
        raise vlib.ToolError("the design without the re-check under the lock was not refuted")
    # implementation-level exploration around each transition: real threads under the deterministic
    # scheduler (DFS with a preemption bound over everything the breaker synchronises on, then random)
    vlib.scheduled_run(ctx, "c16", TRACE, timeout=3000 if q else 20000)


def replay(ctx, path):
    vlib.scheduled_replay(ctx, "c16", TRACE, path)


def evidence(ctx):
    ctx.assumptions += [
        "implementation-level exploration is bounded: all schedules with at most 2 (thorough: 3) preemptions at the breaker's synchronisation points (state mutex, listener list, retry stamp, window counters), then randomised priorities; 2 threads (thorough: 3) around each transition after a sequential prelude",
        "transition records come from a registered StateChangeListener, which the breaker calls inside its critical section, so their order is the linearisation order; calls are atomic at some instant between their logged start and end",
        "error-count strategy, one statistic bucket; sequentially consistent atomics",
    ]
    vlib.write_evidence(ctx)
