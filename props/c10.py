"""C10 — rule managers hold and enforce exactly the valid rules last given, incl. appends (RuleManager.tla)."""
import vlib

TRACE = ("Trace_RuleManager", "Trace_RuleManager.cfg")
FAMS = ["flow", "iso", "hot", "cb", "sys"]


def run(ctx):
    q = ctx.quick()
    gens = []
    for f in FAMS:
        gens.append(("MC_RuleManager", "Gen_RuleManager_%s.cfg" % f, None, 600 if q else 20000))
        # every "A B A" pattern (a rule set given again after one intervening operation)
        gens.append(("MC_RuleManager", "Gen_RuleManager_%s_aba.cfg" % f, None, None if not q else 2500))
        gens.append(("MC_RuleManager", "Gen_RuleManager_%s_sim.cfg" % f, "num=%d" % (60 if q else 1500), 60 if q else 1500))
    vlib.standard_run(
        ctx,
        mc=[("MC_RuleManager", "MC_RuleManager_%s.cfg" % f, 4, 900) for f in FAMS],
        goals=("MC_RuleManager", "MC_RuleManager_flow.cfg", ["GoalTwoActive", "GoalDupKeptTwice"]),
        gens=gens,
        trace=TRACE,
        drives=[["world-drive", "--prop", "c10", "--hist", 250 if q else 5000, "--len", 30]],
        known_matcher=lambda r: vlib.match_known(ctx, r),
    )


def replay(ctx, path):
    vlib.standard_replay(ctx, path, TRACE, vlib.WORLD_INPUT_KEYS)


def evidence(ctx):
    ctx.assumptions += [
        "a rule given under several ids is kept once or several times; 'unchanged' is asserted only for byte-identical reloads; return values of an empty per-resource load and of an append of an invalid rule are not asserted",
        "rules handed to load_rules_of_resource carry that resource's name",
        "enforcement is probed for flow and isolation (idle resource, empty windows)",
    ]
    vlib.write_evidence(ctx)
