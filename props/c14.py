"""C14 — concurrent entries share one statistics node, accounted without loss or excess (NodeStore.tla)."""
import json
import vlib

TRACE = ("Trace_NodeStore", "Trace_NodeStore.cfg")
IS_BEGIN = lambda l: '"e":"begin"' in l


def run(ctx):
    q = ctx.quick()
    vlib.build_harness(ctx)
    # (M) the mechanism (get-or-create in separately locked steps, atomic counters) refines the atomic statement
    # in every interleaving of 3 threads; the designs as found / with a non-atomic decrement are refuted
    vlib.model_check(ctx, "MC_NodeStore", "MC_NodeStore.cfg", workers=4, timeout=600)
    for name in ("MC_NodeStore_threestep.cfg", "MC_NodeStore_nonatomic.cfg"):
        r = vlib.tlc(ctx, "MC_NodeStore", name, workers=4, timeout=600, tag=name)
        ok = "Atomic" in r.inv_violated
        ctx.notes.setdefault("refuted_designs", {})[name] = ok
        ctx.log("MC %s: %s" % (name, "refuted as expected" if ok else "NOT refuted"))
        if not ok:
            raise vlib.ToolError("%s was not refuted" % name)
    # implementation-level exploration: real threads under the deterministic scheduler, DFS with a
    # preemption bound over the synchronisation points of the statistics, then random priorities
    vlib.scheduled_run(ctx, "c14", TRACE, timeout=3000 if q else 20000)


def replay(ctx, path):
    vlib.scheduled_replay(ctx, "c14", TRACE, path)


def evidence(ctx):
    ctx.assumptions += [
        "implementation-level exploration is bounded: depth-first over all schedules with at most 2 (thorough: 3) preemptions at the synchronisation points of the statistics code (node map lock, bucket locks, every atomic access), then randomised priority schedules; unbounded interleaving coverage exists at model level only (MC_NodeStore)",
        "no rule is loaded (every build is admitted); the clock is fixed or stepped once by a pseudo-thread placed by the scheduler between any two operations",
        "sequentially consistent atomics (the scheduler serialises threads); weak-memory effects are out of reach",
    ]
    vlib.write_evidence(ctx)
