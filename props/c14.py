"""C14 — concurrent entries share one statistics node, accounted without loss or excess (NodeStore.tla)."""
import json
import vlib

TRACE = ("Trace_NodeStore", "Trace_NodeStore.cfg")
IS_BEGIN = lambda l: '"e":"begin"' in l


def run(ctx):
    q = ctx.quick()
    vlib.build_harness(ctx)
    # (M) the mechanism (get-or-create in separately locked steps, atomic counters) refines the atomic statement
    # in every interleaving of 3 threads; the designs as found / with a non-atomic decrement are refuted
    vlib.model_check(ctx, "MC_NodeStore", "MC_NodeStore.cfg", workers=4, timeout=600)
    for name in ("MC_NodeStore_threestep.cfg", "MC_NodeStore_nonatomic.cfg"):
        r = vlib.tlc(ctx, "MC_NodeStore", name, workers=4, timeout=600, tag=name)
        ok = "Atomic" in r.inv_violated
        ctx.notes.setdefault("refuted_designs", {})[name] = ok
        ctx.log("MC %s: %s" % (name, "refuted as expected" if ok else "NOT refuted"))
        if not ok:
            raise vlib.ToolError("%s was not refuted" % name)
    # implementation-level exploration: real threads under the deterministic scheduler, DFS with a
    # preemption bound over the synchronisation points of the statistics, then random priorities
    out = ctx.path("c14.ndjson")
    txt = vlib.vh(ctx, ["c14", "--tier", ctx.tier, "--seed", ctx.seed, "--out", out], timeout=3000 if q else 20000)
    summ = json.loads([l for l in txt.splitlines() if l.startswith("{")][-1])["summary"]
    ctx.notes["schedule_exploration"] = summ
    ctx.behaviours += sum(s["executions"] for s in summ)
    for s in summ:
        for v in s["verdicts"]:
            if v["kind"] == "stuck":
                raise vlib.ToolError("scheduler: %s" % v["msg"])
            vlib.report_violation(ctx, "deadlock in scenario %s: %s" % (s["scenario"], v["waiting"]),
                                  [json.dumps({"scenario": s["scenario"], "sched": v["sched"]})])
    rej = vlib.validate_traces(ctx, TRACE[0], TRACE[1], out, "c14", is_reset=IS_BEGIN, max_rejects=20)
    for s in vlib.first_lines(out, 6):
        vlib.add_sample(ctx, "event_of_scheduled_execution", s)
    for r in rej:
        k = vlib.match_known(ctx, r)
        if k:
            if k not in ctx.known:
                ctx.known.append(k)
            continue
        bad = r["history"][r["at"] - 1] if 0 < r["at"] <= len(r["history"]) else ""
        vlib.report_violation(ctx, "%s at event %s: %s" % (r["why"], r["at"], bad[:300]), r["history"])


def replay(ctx, path):
    vlib.build_harness(ctx)
    first = json.loads(open(path).readline())
    scn = first.get("scn") or first.get("scenario")
    plan = ",".join(str(x) for x in first["sched"])
    out = ctx.path("re.ndjson")
    vlib.vh(ctx, ["c14", "--scenario", scn, "--plan", plan, "--out", out])
    rej = vlib.validate_traces(ctx, TRACE[0], TRACE[1], out, "re", is_reset=IS_BEGIN)
    for r in rej:
        vlib.report_violation(ctx, r["why"], r["history"], name="again-" + __import__("os").path.basename(path))
    if not rej:
        ctx.log("the replayed schedule is accepted by the specification on this tree")


def evidence(ctx):
    ctx.assumptions += [
        "implementation-level exploration is bounded: depth-first over all schedules with at most 2 (thorough: 3) preemptions at the synchronisation points of the statistics code (node map lock, bucket locks, every atomic access), then randomised priority schedules; unbounded interleaving coverage exists at model level only (MC_NodeStore)",
        "no rule is loaded (every build is admitted); the clock is fixed or stepped once by a pseudo-thread placed by the scheduler between any two operations",
        "sequentially consistent atomics (the scheduler serialises threads); weak-memory effects are out of reach",
    ]
    vlib.write_evidence(ctx)
