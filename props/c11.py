"""C11 — hot reload keeps the state of unchanged rules and applies changed ones at once.

The enforcement specifications (FlowReject, HotspotQps, Breaker, Throttle, WarmUp envelope) carry the
run-time state per rule and define what a reload does to it (an equal rule - whatever its id, order or
the fate of other resources - keeps its state; a changed one starts fresh or inherits, and its new
parameters decide the very next entry).  Every decision after a reload is validated against that state,
which is the differential statement 'as if no reload had happened' in specification form."""
import vlib

PARTS = [
    ("c11flow", ("Trace_FlowReject", "Trace_FlowReject.cfg"), 60),
    ("c11hot", ("Trace_HotspotQps", "Trace_HotspotQps_reload.cfg"), 50),
    ("c11cb", ("Trace_Breaker", "Trace_Breaker.cfg"), 60),
    ("c11thr", ("Trace_Throttle", "Trace_Throttle.cfg"), 40),
]


def run(ctx):
    q = ctx.quick()
    vlib.build_harness(ctx)
    # (M) the flow model with reload events enabled at every point (bounded), and the breaker model
    vlib.model_check(ctx, "MC_FlowReject", "MC_FlowReject_reload.cfg", workers=8, timeout=1500)
    rejected = []
    # (S->I) TLC behaviours with reloads at every position of short histories (flow windows incl. private ones)
    beh = ctx.path("beh.jsonl")
    n = vlib.generate(ctx, "MC_FlowReject", "Gen_FlowReject_reload.cfg", beh, workers=4, limit=3000 if q else 60000, timeout=1500)
    n += vlib.generate(ctx, "MC_FlowReject", "Gen_FlowReject_reload_sim.cfg", beh, workers=1, seed=ctx.seed,
                       simulate="num=%d" % (300 if q else 6000), limit=300 if q else 6000, tag="gensim")
    ctx.behaviours += n
    vlib.vh(ctx, ["world-replay", "--in", beh, "--out", ctx.path("replay.ndjson")])
    rejected += [(r, "flow") for r in vlib.validate_traces(ctx, "Trace_FlowReject", "Trace_FlowReject.cfg",
                                                           ctx.path("replay.ndjson"), "replay")]
    # (I->S) the drivers of C01 / C06 / C03 / C07 with reloads inserted at random points
    for prop, trace, ln in PARTS:
        out = ctx.path(prop + ".ndjson")
        vlib.vh(ctx, ["world-drive", "--prop", prop, "--seed", ctx.seed, "--hist", 200 if q else 4000, "--len", ln, "--out", out])
        rejected += [(r, prop) for r in vlib.validate_traces(ctx, trace[0], trace[1], out, prop)]
        for s in vlib.first_lines(out, 4)[2:]:
            vlib.add_sample(ctx, "event_of_recorded_trace_" + prop, s)
    for r, part in rejected:
        k = vlib.match_known(ctx, r)
        if k:
            if k not in ctx.known:
                ctx.known.append(k)
            continue
        bad = r["history"][r["at"] - 1] if 0 < r["at"] <= len(r["history"]) else ""
        vlib.report_violation(ctx, "[%s] %s at event %s: %s" % (part, r["why"], r["at"], bad[:300]), r["history"])


def replay(ctx, path):
    import json
    first = [json.loads(l) for l in open(path) if l.strip()]
    fams = {e.get("fam") for e in first if e.get("e") == "load"}
    trace = PARTS[0][1]
    if "cb" in fams:
        trace = PARTS[2][1]
    elif "hot" in fams and "flow" in fams or any(r.get("ctl") == "throttling" for e in first for r in e.get("rules", [])):
        trace = PARTS[3][1]
    elif "hot" in fams:
        trace = PARTS[1][1]
    vlib.standard_replay(ctx, path, trace, vlib.WORLD_INPUT_KEYS)


def evidence(ctx):
    ctx.assumptions += [
        "continuity of state is asserted for resources whose rule set is equal (under rule equality) to the loaded one; a changed rule with a private window / token buckets / schedule may inherit the old state or start empty",
        "warm-up continuity is exercised through the C08 envelope only; hotspot concurrency counts through C05's specification",
    ]
    vlib.write_evidence(ctx)
