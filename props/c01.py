"""C01 — reject-type flow control admits a request iff it fits every rule's window (FlowReject.tla)."""
import vlib

TRACE = ("Trace_FlowReject", "Trace_FlowReject.cfg")


def run(ctx):
    q = ctx.quick()
    vlib.standard_run(
        ctx,
        mc=[("MC_FlowReject", "MC_FlowReject.cfg" if q else "MC_FlowReject_thorough.cfg", 8 if q else 14, 600 if q else 3000),
            ("MC_FlowReject", "MC_FlowReject_mem.cfg", 6, 900)],          # memory-adaptive thresholds
        goals=("MC_FlowReject", "MC_FlowReject.cfg", ["GoalBlockedAtBoundary", "GoalPrivateExpires", "GoalTwoAdmissions"]),
        gens=[("MC_FlowReject", "Gen_FlowReject.cfg" if q else "Gen_FlowReject_thorough.cfg", None, None),
              ("MC_FlowReject", "Gen_FlowReject_mem.cfg", None, 1500 if q else 30000),
              ("MC_FlowReject", "Gen_FlowReject_sim.cfg", "num=%d" % (400 if q else 8000), 400 if q else 8000)],
        trace=TRACE,
        drives=[["world-drive", "--prop", "c01", "--hist", 250 if q else 5000, "--len", 60]],
    )


def replay(ctx, path):
    vlib.standard_replay(ctx, path, TRACE, vlib.WORLD_INPUT_KEYS)


def evidence(ctx):
    ctx.assumptions += [
        "requests one at a time (the property's quantifier); one harness thread",
        "statistic windows are bucket-aligned as documented; thresholds are small rationals for which f64 comparison is exact",
        "S->I uses a scaled geometry (global 4x2 ms, default 2x2 ms) installed through the public configuration; I->S the default 20x500 ms",
    ]
    vlib.write_evidence(ctx)
