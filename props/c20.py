"""C20 — Tower middleware calls the service iff admitted and always releases admission (Tower.tla)."""
import os
import vlib

TRACE = ("Trace_Tower", "Trace_Tower.cfg")
VHT = os.path.join(vlib.HARNESS, "target", "debug", "vht")


def run(ctx):
    q = ctx.quick()
    vlib.build_harness(ctx, bins=("vh", "vht"))
    vlib.model_check(ctx, "MC_Tower", "MC_Tower.cfg", workers=4, timeout=600)
    vlib.check_goals(ctx, "MC_Tower", "MC_Tower.cfg", ["GoalRejected"])
    # (S->I) all outcome sequences of the bounded model over the real SentinelService
    beh = ctx.path("beh.jsonl")
    n = vlib.generate(ctx, "MC_Tower", "Gen_Tower.cfg" if q else "Gen_Tower_thorough.cfg", beh, workers=4, timeout=1500,
                      limit=8000 if q else 150000)
    ctx.behaviours += n
    vlib.vh(ctx, ["replay", "--in", beh, "--out", ctx.path("replay.ndjson")], binary=VHT)
    rej = vlib.validate_traces(ctx, TRACE[0], TRACE[1], ctx.path("replay.ndjson"), "replay")
    # (I->S) random sequences incl. futures dropped before completion (reported, not asserted)
    vlib.vh(ctx, ["drive", "--seed", ctx.seed, "--hist", 500 if q else 20000, "--out", ctx.path("drive.ndjson")], binary=VHT)
    rej += vlib.validate_traces(ctx, TRACE[0], TRACE[1], ctx.path("drive.ndjson"), "drive")
    import json
    leak = None
    prev = 0
    for l in open(ctx.path("drive.ndjson")):
        e = json.loads(l)
        if e.get("e") == "reset":
            prev = 0
        elif e.get("e") == "req":
            if e.get("drop") and e.get("called") == 1:
                leak = bool(leak) or e["conc"] > prev
            prev = e["conc"]
    ctx.notes["leak_on_drop_observed"] = leak
    for s in vlib.first_lines(ctx.path("drive.ndjson"), 4):
        vlib.add_sample(ctx, "event_of_recorded_trace", s)
    for r in rej:
        k = vlib.match_known(ctx, r)
        if k:
            if k not in ctx.known:
                ctx.known.append(k)
            continue
        bad = r["history"][r["at"] - 1] if 0 < r["at"] <= len(r["history"]) else ""
        vlib.report_violation(ctx, "%s at event %s: %s" % (r["why"], r["at"], bad[:300]), r["history"])


def replay(ctx, path):
    import json
    vlib.build_harness(ctx, bins=("vh", "vht"))
    evs = [json.loads(l) for l in open(path) if l.strip()]
    keep = {"e", "T", "fallback", "role", "outcome", "drop", "ms"}
    with open(ctx.path("in.jsonl"), "w") as f:
        f.write(json.dumps([{k: v for k, v in e.items() if k in keep} for e in evs]) + "\n")
    vlib.vh(ctx, ["replay", "--in", ctx.path("in.jsonl"), "--out", ctx.path("re.ndjson")], binary=VHT)
    for r in vlib.validate_traces(ctx, TRACE[0], TRACE[1], ctx.path("re.ndjson"), "re"):
        vlib.report_violation(ctx, r["why"], r["history"])


def evidence(ctx):
    ctx.assumptions += [
        "admission is made visible by an isolation rule of threshold T on the extracted resource",
        "the inner future is polled by hand with a no-op waker; a future dropped before completion is explored and only reported (leak_on_drop_observed)",
        "middleware/tonic re-exports this service; its interceptor cannot be built offline (tonic 0.8 is not in the cargo cache) and is covered by reading only",
    ]
    vlib.write_evidence(ctx)
