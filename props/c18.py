"""C18 — rules and metric lines survive serialisation round trips (Codec.tla)."""
import json, os, subprocess, sys, time
import vlib

TRACE = ("Trace_Codec", "Trace_Codec.cfg")
EVERY = lambda l: True
FAMS = ["flow", "iso", "hot", "cb", "sys"]
VHDS = os.path.join(vlib.HARNESS, "target", "debug", "vh-ds")


def build_ds(ctx):
    t = time.time()
    env = dict(os.environ, CARGO_NET_OFFLINE="true")
    p = subprocess.run(["cargo", "build", "--offline", "-p", "vh", "--features", "ds", "--bin", "vh-ds"], cwd=vlib.HARNESS, env=env,
                       stdout=subprocess.PIPE, stderr=subprocess.STDOUT, text=True)
    if p.returncode != 0:
        sys.stdout.write(p.stdout[-4000:])
        raise vlib.ToolError("vh-ds build failed")
    ctx.log("vh-ds (datasource feature) built in %.1fs" % (time.time() - t))


def run(ctx):
    q = ctx.quick()
    build_ds(ctx)
    cases = ctx.path("cases.jsonl")
    total = 0
    for f in FAMS:
        total += vlib.generate(ctx, "MC_Codec", "Gen_Codec_%s_%s.cfg" % (f, "q" if q else "t"), cases, workers=4, timeout=3000,
                               seed=ctx.seed, tag="codec-" + f)
    ctx.behaviours += total
    ctx.notes["rule_cases"] = total
    out = ctx.path("codec.ndjson")
    vlib.vh(ctx, ["codec-replay", "--in", cases, "--seed", ctx.seed, "--lines", 400 if q else 20000, "--out", out], binary=VHDS, timeout=3000)
    rej = vlib.validate_traces(ctx, TRACE[0], TRACE[1], out, "codec", is_reset=EVERY, chunk=3000, max_rejects=100000, timeout=3000, parallel=6)
    for s in vlib.first_lines(out, 2) + vlib.first_lines(out, total + 2)[-2:]:
        vlib.add_sample(ctx, "codec_case", s)
    seen = {}
    for r in rej:
        c = json.loads(r["history"][0])
        k = vlib.match_known(ctx, dict(r, at=1))
        if k:
            if k not in ctx.known:
                ctx.known.append(k)
            continue
        sig = (c.get("kind"), c.get("fam"), tuple(c.get("drop", [])), c.get("wrong"), c.get("ser"), c.get("parse"), bool(c.get("panic")))
        seen[sig] = seen.get(sig, 0) + 1
        if seen[sig] == 1:
            vlib.report_violation(ctx, "case not allowed by the specification %s: %s" % (sig, r["history"][0][:300]), r["history"])
        else:
            ctx.violations.append({"what": "same signature %s" % (sig,), "replay": None})
    # extension beyond the listed property: the datasource's DefaultPropertyHandler (convert, compare with the last
    # property, update) composed with RuleManager.tla; a mismatch is recorded in the evidence, it is not a
    # violation of C18
    try:
        vlib.model_check(ctx, "MC_PropertyHandler", "MC_PropertyHandler.cfg", workers=4, timeout=600)
        pb = ctx.path("ph.jsonl")
        n = vlib.generate(ctx, "MC_PropertyHandler", "Gen_PropertyHandler.cfg", pb, workers=4, timeout=900, limit=2500 if q else 40000, tag="ph")
        vlib.vh(ctx, ["prop-replay", "--in", pb, "--out", ctx.path("ph.ndjson")], binary=VHDS, timeout=1200)
        prej = vlib.validate_traces(ctx, "Trace_PropertyHandler", "Trace_PropertyHandler.cfg", ctx.path("ph.ndjson"), "prophandler")
        ctx.notes["extension_property_handler"] = {"behaviours_replayed": n, "rejected": len(prej),
                                                   "first_rejected": (prej[0]["history"][prej[0]["at"] - 1][:300] if prej else None)}
        ctx.behaviours += n
    except vlib.ToolError as e:
        ctx.notes["extension_property_handler"] = {"tool_error": str(e)}
    # byte-level robustness is outside what the specification expresses: truncation at every byte and random
    # corruption must give an error (or a rule), never a panic - the oracle is trivial and stated here
    txt = vlib.vh(ctx, ["codec-fuzz", "--seed", ctx.seed, "--n", 300 if q else 20000], binary=VHDS, timeout=3000)
    fz = json.loads([l for l in txt.splitlines() if l.startswith("{")][-1])
    ctx.notes["byte_level_documents_tried"] = fz["tried"]
    for p in fz["panics"][:5]:
        vlib.report_violation(ctx, "panic on a malformed document: %s" % json.dumps(p)[:300], [json.dumps(dict(p, kind="fuzz"))])


def replay(ctx, path):
    build_ds(ctx)
    cases = [json.loads(l) for l in open(path) if l.strip()]
    keep = {"kind", "fam", "rule", "drop", "wrong", "rev"}
    with open(ctx.path("in.jsonl"), "w") as f:
        for c in cases:
            if c.get("kind") == "rule":
                f.write(json.dumps([{k: v for k, v in c.items() if k in keep}]) + "\n")
    vlib.vh(ctx, ["codec-replay", "--in", ctx.path("in.jsonl"), "--lines", 0, "--out", ctx.path("re.ndjson")], binary=VHDS)
    for r in vlib.validate_traces(ctx, TRACE[0], TRACE[1], ctx.path("re.ndjson"), "re", is_reset=EVERY):
        vlib.report_violation(ctx, r["why"], r["history"])


def evidence(ctx):
    ctx.assumptions += [
        "the specification decides the structured part: which fields a document has, their defaults, enum variants, wrong-typed values, field order, and the metric-line fields; byte-level truncation / corruption is driven by the harness with the trivial oracle 'error, never a panic' (listed in coverage as byte_level_documents_tried, not as model checking)",
        "thresholds are small rationals (exact in f64); NaN has no JSON form, such a document may be rejected; a dropped id is regenerated",
        "'enforced identically' is taken from field-wise equality plus rule equality of the parsed rule (the enforcement specifications are functions of those fields)",
        "hotspot thresholds / counters beyond 2^31 are outside TLC's integers: the largest values used are 10^6 (rules) and 2*10^9 (metric counters)",
    ]
    vlib.write_evidence(ctx)
